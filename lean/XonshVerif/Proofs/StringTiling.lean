/-
  C08 — a string literal followed across lines: the text an `EndProg` accumulates is the source text
  between its start coordinate and the scan position, and the STRING / FSTRING_MIDDLE token built from
  it is the source slice between the token's own coordinates.
-/
import XonshVerif.Proofs.SrcText
import XonshVerif.Proofs.Tokenize
import XonshVerif.Proofs.TokCompose
namespace XV.Tz
open XV XV.Rx

theorem slice_eq (a : Array Nat) (i j : Nat) : slice a i j = (a.toList.drop i).take (j - i) := by
  unfold slice; simp [Array.toList_extract]

/-- the progs whose `text` is followed here: plain (non-f) string literals -/
def textMode (p : EndProg) : Bool := match p.mode with | .none => true | _ => false

/-- the state is on line `lnum` of `lines` -/
structure LineOK (lines : List (List Nat)) (st : TState) : Prop where
  one : 1 ≤ st.lnum
  cur : lines[st.lnum - 1]? = some st.line.toList
  max : st.max = st.line.size
  pos : st.pos ≤ st.max

/-- the accumulated text of the top prog (when it accumulates literal text) is the source from its start to here -/
def TopOK (lines : List (List Nat)) (st : TState) : Prop :=
  ∀ p rest, st.endProgs = p :: rest → textMode p = true →
    p.text = srcText lines p.start ⟨st.lnum, st.pos⟩ ∧ off lines p.start ≤ off lines ⟨st.lnum, st.pos⟩

/-- a token whose text is the source between its coordinates -/
def TokSrc (lines : List (List Nat)) (t : Tok5) : Prop := t.str = srcText lines t.start t.stop

/-- `prog_token(end, type)`: the token is the source slice, and the invariant moves on to `end` -/
theorem progToken_src (lines : List (List Nat)) (st : TState) (e : Nat) (ty : TT) (p : EndProg) (rest : List EndProg)
    (hl : LineOK lines st) (ht : TopOK lines st) (hp : st.endProgs = p :: rest) (hm : textMode p = true)
    (hpe : st.pos ≤ e) (hemax : e ≤ st.max) :
    TokSrc lines (st.progToken e ty).1 ∧ TopOK lines (st.progToken e ty).2 ∧ LineOK lines (st.progToken e ty).2 := by
  obtain ⟨htxt, hoff⟩ := ht p rest hp hm
  have happ := srcText_append lines p.start st.lnum st.line.toList hl.one hl.cur st.pos e hpe
    (by rw [hl.max] at hemax; simpa using hemax) hoff
  unfold TState.progToken
  simp only [hp]
  refine ⟨?_, ?_, ?_⟩
  · unfold TokSrc
    simp only []
    rw [slice_eq, htxt, happ]
  · intro q rest' hq hmq
    simp only [List.cons.injEq] at hq
    obtain ⟨hq1, _⟩ := hq
    subst hq1
    simp only []
    refine ⟨by rw [slice_eq, htxt, happ], ?_⟩
    unfold off at hoff ⊢
    simp only [] at hoff ⊢
    omega
  · exact ⟨hl.one, hl.cur, hl.max, hemax⟩

/-- `add_prog(start, end)` for a plain string or an f-string: the invariant holds for the new top -/
theorem addProg_src (lines : List (List Nat)) (st : TState) (s e : Nat) (mode : Mode) (pat : PatKind) (q : List Nat)
    (hl : LineOK lines st) (hse : s ≤ e) (hemax : e ≤ st.max) (hpos : st.pos = e) :
    TopOK lines (st.addProg s e mode pat q) := by
  intro p rest hp _
  simp only [TState.addProg, List.cons.injEq] at hp
  obtain ⟨hp1, _⟩ := hp
  subst hp1
  have hpos' : (st.addProg s e mode pat q).pos = e := hpos
  have hln' : (st.addProg s e mode pat q).lnum = st.lnum := rfl
  rw [hpos', hln']
  simp only []
  have h0 : srcText lines ⟨st.lnum, s⟩ ⟨st.lnum, s⟩ = [] := by simp [srcText]
  have := srcText_append lines ⟨st.lnum, s⟩ st.lnum st.line.toList hl.one hl.cur s e hse
    (by rw [hl.max] at hemax; simpa using hemax) (Nat.le_refl _)
  rw [h0, List.nil_append] at this
  refine ⟨by rw [slice_eq, this], ?_⟩
  unfold off; simp only []; omega

/-- the state after `join_line` (the rest of the line goes into the literal) -/
def joined (st : TState) (p : EndProg) (rest : List EndProg) : TState :=
  { st with endProgs := { p with text := p.text ++ slice st.line st.pos st.line.size, contline := p.contline ++ st.line.toList } :: rest,
            pos := st.max }

/-- joining the rest of the line, then moving to the next line: the invariant holds at column 0 of it -/
theorem joined_nextLine_src (lines : List (List Nat)) (st : TState) (p : EndProg) (rest : List EndProg) (next : List Nat)
    (hl : LineOK lines st) (ht : TopOK lines st) (hp : st.endProgs = p :: rest) (hm : textMode p = true)
    (hnext : lines[st.lnum]? = some next) :
    TopOK lines ((joined st p rest).moveNextLine next) ∧ LineOK lines ((joined st p rest).moveNextLine next) := by
  obtain ⟨htxt, hoff⟩ := ht p rest hp hm
  have happ := srcText_append lines p.start st.lnum st.line.toList hl.one hl.cur st.pos st.line.size
    (by rw [← hl.max]; exact hl.pos) (by simp) hoff
  have hend := off_line_end lines st.lnum st.line.toList hl.one hl.cur
  simp only [Array.length_toList] at hend
  refine ⟨?_, ?_⟩
  · intro q rest' hq _
    simp only [joined, TState.moveNextLine, List.cons.injEq] at hq
    obtain ⟨hq1, _⟩ := hq
    subst hq1
    simp only [joined, TState.moveNextLine]
    have hs : srcText lines p.start ⟨st.lnum + 1, 0⟩ = srcText lines p.start ⟨st.lnum, st.line.size⟩ := by
      unfold srcText; rw [hend]
    refine ⟨by rw [slice_eq, htxt, happ, hs], ?_⟩
    rw [← hend]
    unfold off at hoff ⊢
    simp only [] at hoff ⊢
    have := hl.pos; have := hl.max
    omega
  · refine ⟨by simp [joined, TState.moveNextLine], ?_, by simp [joined, TState.moveNextLine], by simp [joined, TState.moveNextLine]⟩
    simp only [joined, TState.moveNextLine, Nat.add_sub_cancel, List.toList_toArray]
    exact hnext

end XV.Tz

namespace XV.Tz
open XV XV.Rx

/-! ### the shape of the mode stack -/

def isN (p : EndProg) : Bool := match p.mode with | .none => true | _ => false
def isM (p : EndProg) : Bool := match p.mode with | .middle _ => true | _ => false
def isB (p : EndProg) : Bool := match p.mode with | .inBraces _ => true | _ => false
def isC (p : EndProg) : Bool := match p.mode with | .inColon _ => true | _ => false

/-- mode and pattern go together -/
def kindOK (p : EndProg) : Bool :=
  match p.mode, p.pat with
  | .none, .endpat _ => true
  | .middle _, .fstr _ => true
  | .inBraces _, .empty => true
  | .inColon _, .rbrace => true
  | _, _ => false

/-- what may sit directly above what (top of the stack first) -/
def okAbove (up lo : EndProg) : Bool :=
  match lo.mode with
  | .none => false
  | .middle _ => isB up
  | .inBraces _ => isC up || isM up || isN up
  | .inColon _ => isM up || isN up

def validStack : List EndProg → Bool
  | [] => true
  | [p] => kindOK p && (isM p || isN p)
  | up :: lo :: rest => kindOK up && okAbove up lo && validStack (lo :: rest)

theorem validStack_tail (p : EndProg) (rest : List EndProg) (h : validStack (p :: rest) = true) : validStack rest = true := by
  cases rest with
  | nil => rfl
  | cons q more => simp only [validStack, Bool.and_eq_true] at h; exact h.2

theorem validStack_kind (p : EndProg) (rest : List EndProg) (h : validStack (p :: rest) = true) : kindOK p = true := by
  cases rest with
  | nil => simp only [validStack, Bool.and_eq_true] at h; exact h.1
  | cons q more => simp only [validStack, Bool.and_eq_true] at h; exact h.1.1

/-- changing only text / contline / start of the top keeps the shape -/
theorem validStack_retop (p p' : EndProg) (rest : List EndProg) (hm : p'.mode = p.mode) (hp : p'.pat = p.pat)
    (h : validStack (p :: rest) = true) : validStack (p' :: rest) = true := by
  have hk : kindOK p' = kindOK p := by unfold kindOK; rw [hm, hp]
  have hN : isN p' = isN p := by unfold isN; rw [hm]
  have hM : isM p' = isM p := by unfold isM; rw [hm]
  have hB : isB p' = isB p := by unfold isB; rw [hm]
  have hC : isC p' = isC p := by unfold isC; rw [hm]
  cases rest with
  | nil => simp only [validStack, hk, hN, hM] at h ⊢; exact h
  | cons q more =>
    simp only [validStack, hk] at h ⊢
    have : okAbove p' q = okAbove p q := by unfold okAbove; cases q.mode <;> simp [hN, hM, hB, hC]
    rw [this]; exact h

end XV.Tz

namespace XV.Tz
open XV XV.Rx

theorem textMode_eq_isN (p : EndProg) : textMode p = isN p := rfl

/-- nothing sits on a plain string: the prog below the top is never one -/
theorem below_not_N (up lo : EndProg) (rest : List EndProg) (h : validStack (up :: lo :: rest) = true) : isN lo = false := by
  simp only [validStack, Bool.and_eq_true] at h
  have := h.1.2
  unfold okAbove at this
  unfold isN
  cases hm : lo.mode <;> simp [hm] at this ⊢

/-- TopOK is vacuous when the top is not a plain string -/
theorem topOK_of_notN (lines : List (List Nat)) (st : TState) (h : ∀ p rest, st.endProgs = p :: rest → isN p = false) : TopOK lines st := by
  intro p rest hp hm
  rw [textMode_eq_isN, h p rest hp] at hm
  cases hm

theorem popMode_endProgs_none (st : TState) (p : EndProg) (rest : List EndProg) (h : st.endProgs = p :: rest) :
    (st.popMode none).endProgs = rest := by
  unfold TState.popMode
  simp only [h]

theorem popMode_endProgs_some (st : TState) (p : EndProg) (rest : List EndProg) (pos : Pos) (h : st.endProgs = p :: rest) :
    (st.popMode (some pos)).endProgs =
      match rest with
      | q :: more => { q with start := pos, text := [], contline := [] } :: more
      | [] => [] := by
  unfold TState.popMode
  simp only [h]
  cases rest <;> rfl

/-- popping keeps the shape, and what comes to the top is not a plain string -/
theorem popMode_valid (st : TState) (e : Option Pos) (p : EndProg) (rest : List EndProg) (h : st.endProgs = p :: rest)
    (hv : validStack st.endProgs = true) :
    validStack (st.popMode e).endProgs = true ∧ (∀ q more, (st.popMode e).endProgs = q :: more → isN q = false) := by
  rw [h] at hv
  cases e with
  | none =>
    rw [popMode_endProgs_none st p rest h]
    refine ⟨validStack_tail p rest hv, ?_⟩
    intro q more hq
    subst hq
    exact below_not_N p q more hv
  | some pos =>
    rw [popMode_endProgs_some st p rest pos h]
    cases rest with
    | nil => exact ⟨rfl, by intro q more hq; cases hq⟩
    | cons q more =>
      have hq := below_not_N p q more hv
      refine ⟨validStack_retop q _ more rfl rfl (validStack_tail p _ hv), ?_⟩
      intro q' more' hq'
      simp only [List.cons.injEq] at hq'
      obtain ⟨h1, _⟩ := hq'
      subst h1
      unfold isN at hq ⊢
      exact hq

@[simp] theorem popMode_lnum' (st : TState) (e : Option Pos) : (st.popMode e).lnum = st.lnum := by
  unfold TState.popMode; split <;> (try split) <;> rfl
@[simp] theorem popMode_pos' (st : TState) (e : Option Pos) : (st.popMode e).pos = st.pos := by
  unfold TState.popMode; split <;> (try split) <;> rfl

end XV.Tz

namespace XV.Tz
open XV XV.Rx

/-- all STRING tokens of a list are source slices -/
def StrOK (lines : List (List Nat)) (ts : List Tok5) : Prop := ∀ t ∈ ts, t.ty = .STRING → TokSrc lines t

theorem StrOK.append {lines : List (List Nat)} {a b : List Tok5} (ha : StrOK lines a) (hb : StrOK lines b) : StrOK lines (a ++ b) := by
  intro t ht; rcases List.mem_append.mp ht with h | h
  · exact ha t h
  · exact hb t h

theorem StrOK.nil (lines : List (List Nat)) : StrOK lines [] := by intro t ht; cases ht

/-- a list that holds no STRING token at all -/
theorem StrOK.of_noString {lines : List (List Nat)} {ts : List Tok5} (h : ∀ t ∈ ts, t.ty ≠ .STRING) : StrOK lines ts :=
  fun t ht hty => absurd hty (h t ht)

theorem emitMiddle_stack (st : TState) (m : Nat) (prog p : EndProg) (rest : List EndProg) (hp : st.endProgs = p :: rest) :
    ∃ p', (emitMiddle st m prog).2.endProgs = p' :: rest ∧ p'.mode = p.mode ∧ p'.pat = p.pat := by
  unfold emitMiddle
  split
  · unfold TState.progToken; simp only [hp]; exact ⟨_, rfl, rfl, rfl⟩
  · exact ⟨p, hp, rfl, rfl⟩

theorem emitMiddle_toks (st : TState) (m : Nat) (prog : EndProg) : ∀ t ∈ (emitMiddle st m prog).1, t.ty ≠ .STRING := by
  unfold emitMiddle
  split
  · intro t ht
    simp only [List.mem_singleton] at ht
    subst ht
    unfold TState.progToken
    split
    · show (default : Tok5).ty ≠ TT.STRING
      decide
    · simp
  · intro t ht; cases ht

/-- the name of the group that matched is one of the pattern's names -/
theorem patBranches_name (P : Pats) (pat : PatKind) (name : String) (r : Re) (h : (name, r) ∈ patBranches P pat) :
    (∃ q, pat = .endpat q ∧ name = "") ∨ (∃ q, pat = .fstr q ∧ (name = "LBrace" ∨ name = "End")) ∨
    (pat = .rbrace ∧ name = "RBrace") ∨ (pat = .empty ∧ name = "") := by
  cases pat with
  | endpat q =>
    simp only [patBranches, List.mem_singleton, Prod.mk.injEq] at h
    exact Or.inl ⟨q, rfl, h.1⟩
  | fstr q =>
    simp only [patBranches, List.mem_cons, List.mem_singleton, Prod.mk.injEq, List.not_mem_nil, or_false] at h
    rcases h with h | h
    · exact Or.inr (Or.inl ⟨q, rfl, Or.inl h.1⟩)
    · exact Or.inr (Or.inl ⟨q, rfl, Or.inr h.1⟩)
  | rbrace =>
    simp only [patBranches, List.mem_singleton, Prod.mk.injEq] at h
    exact Or.inr (Or.inr (Or.inl ⟨rfl, h.1⟩))
  | empty =>
    simp only [patBranches, List.mem_singleton, Prod.mk.injEq] at h
    exact Or.inr (Or.inr (Or.inr ⟨rfl, h.1⟩))

end XV.Tz

namespace XV.Tz
open XV XV.Rx

theorem validStack_push (up : EndProg) (stack : List EndProg) (hk : kindOK up = true)
    (ha : match stack with | [] => (isM up || isN up) = true | lo :: _ => okAbove up lo = true)
    (hv : validStack stack = true) : validStack (up :: stack) = true := by
  cases stack with
  | nil => simp only [validStack, Bool.and_eq_true]; exact ⟨hk, ha⟩
  | cons lo rest => simp only [validStack, Bool.and_eq_true]; exact ⟨⟨hk, ha⟩, hv⟩

theorem popMode_nil (st : TState) (e : Option Pos) (h : st.endProgs = []) : st.popMode e = st := by
  unfold TState.popMode; simp only [h]

theorem okAbove_B_of_M (b p : EndProg) (hb : isB b = true) (hp : isM p = true) : okAbove b p = true := by
  unfold okAbove; unfold isM at hp
  cases hm : p.mode <;> simp [hm] at hp ⊢
  exact hb

/-- what `handle_fstring_progs` does to the stack: the shape is kept, it emits no STRING token, and a plain string is
    on top afterwards only if nothing happened at all -/
theorem handleFstringProgs_stack (E : Env) (P : Pats) (st st' : TState) (ts : List Tok5) (mt : Bool)
    (hv : validStack st.endProgs = true)
    (h : handleFstringProgs E P st = .ok (ts, st', mt)) :
    validStack st'.endProgs = true ∧ (∀ t ∈ ts, t.ty ≠ .STRING) ∧
    (st' = st ∨ ∀ q more, st'.endProgs = q :: more → isN q = false) := by
  unfold handleFstringProgs at h
  split at h
  · injection h with h; injection h with h1 h; injection h with h2 _; subst h1; subst h2
    exact ⟨hv, (by intro t ht; cases ht), Or.inl rfl⟩
  · rename_i prog rest hprogs
    split at h
    · cases h
    · injection h with h; injection h with h1 h; injection h with h2 _; subst h1; subst h2
      exact ⟨hv, (by intro t ht; cases ht), Or.inl rfl⟩
    · rename_i group e hm
      obtain ⟨r, hmem, _⟩ := matchBranches_sound _ _ _ _ _ _ _ hm
      have hname := patBranches_name P prog.pat group r hmem
      have hkind := validStack_kind prog rest (hprogs ▸ hv)
      simp only [] at h
      split at h
      · injection h with h; injection h with h1 h; injection h with h2 _; subst h1; subst h2
        exact ⟨hv, (by intro t ht; cases ht), Or.inl rfl⟩
      · split at h
        · -- End: the literal part, the closing quote, pop
          injection h with h; injection h with h1 h; injection h with h2 _; subst h1; subst h2
          obtain ⟨p', hp', hm', hpat'⟩ := emitMiddle_stack st (e - prog.quote.length) prog prog rest hprogs
          have hv1 : validStack (emitMiddle st (e - prog.quote.length) prog).2.endProgs = true := by
            rw [hp']; exact validStack_retop prog p' rest hm' hpat' (hprogs ▸ hv)
          obtain ⟨a, b⟩ := popMode_valid _ none p' rest hp' hv1
          refine ⟨a, ?_, Or.inr b⟩
          intro t ht
          rcases List.mem_append.mp ht with h1 | h1
          · exact emitMiddle_toks _ _ _ t h1
          · simp only [List.mem_singleton] at h1; subst h1; simp
        · obtain ⟨p', hp', hm', hpat'⟩ := emitMiddle_stack st (e - 1) prog prog rest hprogs
          have hv1 : validStack (emitMiddle st (e - 1) prog).2.endProgs = true := by
            rw [hp']; exact validStack_retop prog p' rest hm' hpat' (hprogs ▸ hv)
          split at h
          · -- LBrace: a field opens
            rename_i hL
            injection h with h; injection h with h1 h; injection h with h2 _; subst h1; subst h2
            have hM : isM p' = true := by
              unfold isM; rw [hm']
              rcases hname with ⟨q, _, hn⟩ | ⟨q, hq, _⟩ | ⟨_, hn⟩ | ⟨_, hn⟩
              · rw [hL] at hn; exact absurd hn (by decide)
              · unfold kindOK at hkind
                rw [hq] at hkind
                cases hmode : prog.mode <;> simp [hmode] at hkind ⊢
              · rw [hL] at hn; exact absurd hn (by decide)
              · rw [hL] at hn; exact absurd hn (by decide)
            refine ⟨?_, ?_, Or.inr ?_⟩
            · simp only [TState.addProg]
              rw [hp']
              rw [hp'] at hv1
              exact validStack_push _ (p' :: rest) rfl (okAbove_B_of_M _ p' rfl hM) hv1
            · intro t ht
              rcases List.mem_append.mp ht with h1 | h1
              · exact emitMiddle_toks _ _ _ t h1
              · simp only [List.mem_singleton] at h1; subst h1; simp
            · intro q more hq
              simp only [TState.addProg, List.cons.injEq] at hq
              obtain ⟨hq1, _⟩ := hq
              subst hq1; rfl
          · -- RBrace: the format spec and its field close
            injection h with h; injection h with h1 h; injection h with h2 _; subst h1; subst h2
            have hlist : ∀ t ∈ (emitMiddle st (e - 1) prog).1 ++ [({ ty := .OP, str := [125], start := ⟨(emitMiddle st (e - 1) prog).2.lnum, (emitMiddle st (e - 1) prog).2.pos⟩, stop := ⟨(emitMiddle st (e - 1) prog).2.lnum, e⟩, line := st.line.toList } : Tok5)], t.ty ≠ .STRING := by
              intro t ht
              rcases List.mem_append.mp ht with h1 | h1
              · exact emitMiddle_toks _ _ _ t h1
              · simp only [List.mem_singleton] at h1; subst h1; simp
            have hv2 : validStack ({ (emitMiddle st (e - 1) prog).2 with parenlev := (emitMiddle st (e - 1) prog).2.parenlev - 1 } : TState).endProgs = true := hv1
            obtain ⟨a, b⟩ := popMode_valid ({ (emitMiddle st (e - 1) prog).2 with parenlev := (emitMiddle st (e - 1) prog).2.parenlev - 1 } : TState) none p' rest hp' hv2
            cases hs : (({ (emitMiddle st (e - 1) prog).2 with parenlev := (emitMiddle st (e - 1) prog).2.parenlev - 1 } : TState).popMode none).endProgs with
            | nil =>
              rw [popMode_nil _ _ hs]
              exact ⟨by rw [hs]; rfl, hlist, Or.inr (by intro q more hq; rw [hs] at hq; cases hq)⟩
            | cons q more =>
              obtain ⟨a2, b2⟩ := popMode_valid _ (some ⟨(emitMiddle st (e - 1) prog).2.lnum, e⟩) q more hs a
              exact ⟨a2, hlist, Or.inr b2⟩

end XV.Tz

namespace XV.Tz
open XV XV.Rx

/-- the invariant of the scan: we are on a line of the source, the mode stack is well shaped, and a plain string on
    top of it has accumulated exactly the source text up to the scan position -/
structure Inv (lines : List (List Nat)) (st : TState) : Prop where
  line : LineOK lines st
  shape : validStack st.endProgs = true
  top : TopOK lines st

/-- after `handle_end_progs`: a plain string still on top has swallowed the rest of the line -/
def AtEnd (st : TState) : Prop := ∀ q more, st.endProgs = q :: more → isN q = true → st.pos = st.max

theorem LineOK.of_adv {lines : List (List Nat)} {st st' : TState} (h : LineOK lines st) (a : Adv st st') (hp : st'.pos ≤ st'.max) :
    LineOK lines st' :=
  ⟨by rw [a.lnum]; exact h.one, by rw [a.lnum, a.line]; exact h.cur, by rw [a.max, a.line]; exact h.max, hp⟩

theorem isN_false_of_mode {p : EndProg} (h : p.mode ≠ .none) : isN p = false := by
  unfold isN; cases hm : p.mode <;> simp [hm] at h ⊢

theorem endProgFinish_inv (lines : List (List Nat)) (ts ts' : List Tok5) (s s' : TState) (matched early : Bool)
    (hinv : Inv lines s)
    (hnotN : (matched = true ∨ early = true) → ∀ q more, s.endProgs = q :: more → isN q = false)
    (h : endProgFinish ts s matched early = .ok (ts', s')) :
    ts' = ts ∧ Inv lines s' ∧ AtEnd s' := by
  have notN_atEnd : (∀ q more, s.endProgs = q :: more → isN q = false) → AtEnd s := by
    intro hn q more hq hN; rw [hn q more hq] at hN; cases hN
  unfold endProgFinish at h
  split at h
  · rename_i he
    injection h with h; injection h with h1 h2; subst h1; subst h2
    exact ⟨rfl, hinv, notN_atEnd (hnotN (Or.inr he))⟩
  · split at h
    · rename_i hb
      injection h with h; injection h with h1 h2; subst h1; subst h2
      refine ⟨rfl, hinv, notN_atEnd ?_⟩
      intro q more hq
      simp only [Bool.or_eq_true] at hb
      rcases hb with hb | hb
      · unfold TState.inBraces at hb; rw [hq] at hb
        unfold isN; cases hm : q.mode <;> simp [hm] at hb ⊢
      · rw [hq] at hb; simp at hb
    · split at h
      · rename_i hmt
        injection h with h; injection h with h1 h2; subst h1; subst h2
        exact ⟨rfl, hinv, notN_atEnd (hnotN (Or.inl hmt))⟩
      · split at h
        · split at h
          · injection h with h; injection h with h1 h2; subst h1; subst h2
            exact ⟨rfl, hinv, by intro q more hq; rename_i hnil; rw [hnil] at hq; cases hq⟩
          · rename_i p rest hp
            injection h with h; injection h with h1 h2; subst h1; subst h2
            refine ⟨rfl, ⟨⟨hinv.line.one, hinv.line.cur, hinv.line.max, Nat.le_refl _⟩, ?_, ?_⟩, ?_⟩
            · exact validStack_retop p _ rest rfl rfl (hp ▸ hinv.shape)
            · intro q more hq hmq
              simp only [List.cons.injEq] at hq
              obtain ⟨hq1, _⟩ := hq
              subst hq1
              have hmp : textMode p = true := hmq
              obtain ⟨htxt, hoff⟩ := hinv.top p rest hp hmp
              have happ := srcText_append lines p.start s.lnum s.line.toList hinv.line.one hinv.line.cur s.pos s.line.size
                (by rw [← hinv.line.max]; exact hinv.line.pos) (by simp) hoff
              simp only []
              refine ⟨by rw [slice_eq, htxt, happ, hinv.line.max], ?_⟩
              unfold off at hoff ⊢
              simp only [] at hoff ⊢
              have := hinv.line.pos
              omega
            · intro q more hq _; rfl
        · split at h
          · cases h
          · rename_i hmt _ hnm
            simp only [Bool.not_eq_true', Bool.not_eq_eq_eq_not, Bool.not_true] at hnm
            cases matched <;> simp_all

end XV.Tz

namespace XV.Tz
open XV XV.Rx

theorem handleEndProgs_inv (lines : List (List Nat)) (E : Env) (P : Pats) (st st' : TState) (ts : List Tok5)
    (hinv : Inv lines st) (h : handleEndProgs E P st = .ok (ts, st')) :
    Inv lines st' ∧ StrOK lines ts ∧ AtEnd st' := by
  have hadv := handleEndProgs_adv E P st st' ts hinv.line.max hinv.line.pos h
  unfold handleEndProgs at h
  split at h
  · rename_i hnil
    injection h with h; injection h with h1 h2; subst h1; subst h2
    exact ⟨hinv, StrOK.nil _, by intro q more hq; rw [hnil] at hq; cases hq⟩
  · rename_i prog rest hp
    split at h
    · cases h
    · split at h
      · rename_i hb
        injection h with h; injection h with h1 h2; subst h1; subst h2
        refine ⟨hinv, StrOK.nil _, ?_⟩
        intro q more hq hN
        unfold TState.inBraces at hb; rw [hq] at hb
        unfold isN at hN; cases hm : q.mode <;> simp [hm] at hb hN
      · rename_i hnb
        split at h
        · cases h
        · rename_i ts1 s1 matched early hstep
          -- what endProgStep did
          have key : Inv lines s1 ∧ StrOK lines ts1 ∧ ((matched = true ∨ early = true) → ∀ q more, s1.endProgs = q :: more → isN q = false) := by
            have hadv1 := endProgStep_adv E P st s1 prog rest ts1 matched early hinv.line.max hinv.line.pos hp hstep
            have hl1 := hinv.line.of_adv hadv1.1 hadv1.2
            unfold endProgStep at hstep
            split at hstep
            · rename_i hmc
              split at hstep
              · cases hstep
              · rename_i ts0 s0 m0 hf
                obtain ⟨hv, hno, hch⟩ := handleFstringProgs_stack E P st _ _ _ hinv.shape hf
                -- the top was an f-string part or a format spec: not a plain string, before or after
                have hstN : ∀ q more, st.endProgs = q :: more → isN q = false := by
                  intro q more hq
                  simp only [Bool.or_eq_true] at hmc
                  unfold TState.inMiddle TState.inColon at hmc
                  rw [hq] at hmc
                  unfold isN; cases hm : q.mode <;> simp [hm] at hmc ⊢
                have hs0N : ∀ q more, s0.endProgs = q :: more → isN q = false := by
                  rcases hch with heq | hn
                  · rw [heq]; exact hstN
                  · exact hn
                injection hstep with hstep; injection hstep with e1 hstep; injection hstep with e2 hstep; injection hstep with e3 e4
                rw [← e1, ← e2]
                exact ⟨⟨e2 ▸ hl1, hv, topOK_of_notN lines _ hs0N⟩, StrOK.of_noString hno, fun _ => hs0N⟩
            · rename_i hmc
              have hmN : textMode prog = true := by
                simp only [Bool.or_eq_true, not_or, Bool.not_eq_true] at hmc hnb
                unfold TState.inMiddle TState.inColon at hmc
                unfold TState.inBraces at hnb
                rw [hp] at hmc hnb
                unfold textMode
                cases hmode : prog.mode <;> simp [hmode] at hmc hnb ⊢
              split at hstep
              · cases hstep
              · -- the closing quote of a plain string was found on this line
                rename_i e hm
                have hge := matchBranches_ge _ _ _ _ _ _ _ hm
                have hbd : e ≤ st.max := by rw [hinv.line.max]; exact matchBranches_le _ _ _ _ _ _ _ (by rw [← hinv.line.max]; exact hinv.line.pos) hm
                obtain ⟨htok, _, _⟩ := progToken_src lines st e .STRING prog rest hinv.line hinv.top hp hmN hge hbd
                have hstack : ∃ p', (st.progToken e .STRING).2.endProgs = p' :: rest ∧ p'.mode = prog.mode ∧ p'.pat = prog.pat := by
                  unfold TState.progToken; simp only [hp]; exact ⟨_, rfl, rfl, rfl⟩
                obtain ⟨p', hp', hm', hpat'⟩ := hstack
                have hv1 : validStack (st.progToken e .STRING).2.endProgs = true := by
                  rw [hp']; exact validStack_retop prog p' rest hm' hpat' (hp ▸ hinv.shape)
                obtain ⟨a, b⟩ := popMode_valid _ none p' rest hp' hv1
                injection hstep with hstep; injection hstep with e1 hstep; injection hstep with e2 hstep; injection hstep with e3 e4
                rw [← e1, ← e2]
                refine ⟨⟨e2 ▸ hl1, a, topOK_of_notN lines _ b⟩, ?_, fun _ => b⟩
                intro t ht _
                simp only [List.mem_singleton] at ht
                subst ht; exact htok
              · injection hstep with hstep; injection hstep with e1 hstep; injection hstep with e2 hstep; injection hstep with e3 e4
                rw [← e1, ← e2]
                refine ⟨hinv, StrOK.nil _, ?_⟩
                intro hc; rcases hc with hc | hc
                · rw [← e3] at hc; cases hc
                · rw [← e4] at hc; cases hc
          obtain ⟨hinv1, hstr1, hnotN1⟩ := key
          obtain ⟨e1, hinv', hat⟩ := endProgFinish_inv lines ts1 ts s1 st' matched early hinv1 hnotN1 h
          subst e1
          exact ⟨hinv', hstr1, hat⟩

end XV.Tz

namespace XV.Tz
open XV XV.Rx

/-- the top of the stack is a field (`{ ... }`) or a format spec, or the stack is empty: the places where the
    master pattern is allowed to act -/
def TopBC (st : TState) : Prop := ∀ q more, st.endProgs = q :: more → isB q = true ∨ isC q = true

theorem notN_of_BC {q : EndProg} (h : isB q = true ∨ isC q = true) : isN q = false := by
  unfold isB isC at h; unfold isN
  cases hm : q.mode <;> simp [hm] at h ⊢

theorem okAbove_text_of_BC (up lo : EndProg) (hup : isM up = true ∨ isN up = true) (hlo : isB lo = true ∨ isC lo = true) :
    okAbove up lo = true := by
  unfold okAbove; unfold isB isC at hlo
  cases hm : lo.mode <;> simp [hm] at hlo ⊢
  · rcases hup with h | h <;> simp [h]
  · rcases hup with h | h <;> simp [h]

theorem specialAction_stack (st : TState) (start e : Nat) (hv : validStack st.endProgs = true) (htop : TopBC st) :
    validStack (specialAction st start e).endProgs = true ∧
    (∀ q more, (specialAction st start e).endProgs = q :: more → isN q = false) := by
  have same : validStack st.endProgs = true ∧ (∀ q more, st.endProgs = q :: more → isN q = false) :=
    ⟨hv, fun q more hq => notN_of_BC (htop q more hq)⟩
  unfold specialAction
  split
  · exact same
  · split
    · -- a closing bracket: possibly the end of a field
      simp only []
      split
      · cases hs : st.endProgs with
        | nil => rw [popMode_nil _ _ hs, hs]; exact ⟨rfl, by intro q more hq; cases hq⟩
        | cons p rest => exact popMode_valid st _ p rest hs hv
      · exact same
    · split
      · -- ':' at the field's bracket depth: the format spec starts
        rename_i hc
        simp only [Bool.and_eq_true] at hc
        obtain ⟨⟨_, hb⟩, _⟩ := hc
        simp only [TState.addProg]
        cases hs : st.endProgs with
        | nil => unfold TState.inBraces at hb; rw [hs] at hb; cases hb
        | cons p rest =>
          have hpB : isB p = true := by
            unfold TState.inBraces at hb; rw [hs] at hb
            unfold isB; cases hm : p.mode <;> simp [hm] at hb ⊢
          refine ⟨validStack_push _ (p :: rest) rfl ?_ (hs ▸ hv), ?_⟩
          · show okAbove _ p = true
            unfold okAbove; unfold isB at hpB
            cases hm : p.mode <;> simp [hm] at hpB ⊢
            exact Or.inl (Or.inl rfl)
          · intro q more hq
            simp only [List.cons.injEq] at hq
            obtain ⟨hq1, _⟩ := hq
            subst hq1; rfl
      · exact same

end XV.Tz

namespace XV.Tz
open XV XV.Rx

theorem pseudoAction_inv (lines : List (List Nat)) (st st' : TState) (group : String) (start e : Nat) (tok : Option Tok5)
    (hl : LineOK lines st) (hv : validStack st.endProgs = true) (htop : TopBC st)
    (hse : start ≤ e) (hpos : st.pos = e)
    (h : pseudoAction st group start e = .ok (tok, st')) :
    validStack st'.endProgs = true ∧ TopOK lines st' ∧ (∀ t, tok = some t → t.ty ≠ .STRING) := by
  have hemax : e ≤ st.max := by rw [← hpos]; exact hl.pos
  have same : validStack st.endProgs = true ∧ TopOK lines st :=
    ⟨hv, topOK_of_notN lines st (fun q more hq => notN_of_BC (htop q more hq))⟩
  have pushOK : ∀ (up : EndProg), kindOK up = true → (isM up = true ∨ isN up = true) → validStack (up :: st.endProgs) = true := by
    intro up hk hup
    refine validStack_push up st.endProgs hk ?_ hv
    cases hs : st.endProgs with
    | nil => simp only []; rcases hup with h | h <;> simp [h]
    | cons lo rest => exact okAbove_text_of_BC up lo hup (htop lo rest hs)
  unfold pseudoAction at h
  split at h
  · split at h
    · -- an f-string starts
      injection h with h; injection h with h1 h2; subst h1; subst h2
      refine ⟨pushOK _ rfl (Or.inl rfl), topOK_of_notN lines _ ?_, by intro t ht; injection ht with ht; subst ht; simp [mkTok]⟩
      intro q more hq
      simp only [TState.addProg, List.cons.injEq] at hq
      obtain ⟨hq1, _⟩ := hq
      subst hq1; rfl
    · -- a plain string starts
      injection h with h; injection h with h1 h2; subst h1; subst h2
      exact ⟨pushOK _ rfl (Or.inr rfl), addProg_src lines st start e _ _ _ hl hse hemax hpos, by intro t ht; cases ht⟩
  · split at h
    · injection h with h; injection h with h1 h2; subst h1; subst h2
      exact ⟨same.1, same.2, by intro t ht; injection ht with ht; subst ht; simp [mkTok]⟩
    · split at h
      · injection h with h; injection h with h1 h2; subst h1; subst h2
        exact ⟨same.1, same.2, by intro t ht; injection ht with ht; subst ht; simp [mkTok]⟩
      · split at h
        · injection h with h; injection h with h1 h2; subst h1; subst h2
          exact ⟨same.1, same.2, by intro t ht; injection ht with ht; subst ht; simp [mkTok]⟩
        · split at h
          · injection h with h; injection h with h1 h2; subst h1; subst h2
            exact ⟨same.1, same.2, by intro t ht; injection ht with ht; subst ht; simp [mkTok]⟩
          · split at h
            · injection h with h; injection h with h1 h2; subst h1; subst h2
              exact ⟨same.1, same.2, by intro t ht; injection ht with ht; subst ht; simp [mkTok]⟩
            · split at h
              · injection h with h; injection h with h1 h2; subst h1; subst h2
                refine ⟨same.1, same.2, ?_⟩
                intro t ht; injection ht with ht; subst ht
                simp only [mkTok]; split <;> simp
              · split at h
                · injection h with h; injection h with h1 h2; subst h1; subst h2
                  obtain ⟨a, b⟩ := specialAction_stack st start e hv htop
                  exact ⟨a, topOK_of_notN lines _ b, by intro t ht; injection ht with ht; subst ht; simp [mkTok]⟩
                · split at h
                  · injection h with h; injection h with h1 h2; subst h1; subst h2
                    refine ⟨same.1, topOK_of_notN lines _ (fun q more hq => notN_of_BC (htop q more hq)), by intro t ht; cases ht⟩
                  · cases h

end XV.Tz

namespace XV.Tz
open XV XV.Rx

theorem nextPseudoMatches_inv (lines : List (List Nat)) (E : Env) (P : Pats) (hP : PseudoProgress P) (st st' : TState) (tok : Option Tok5)
    (hinv : Inv lines st) (hat : AtEnd st)
    (h : nextPseudoMatches E P st = .ok (tok, st')) :
    Inv lines st' ∧ (∀ t, tok = some t → t.ty ≠ .STRING) ∧
    (∀ q more, st'.endProgs = q :: more → isN q = true → st' = st ∨ st.pos < st'.pos) := by
  obtain ⟨hadv, hpm, _⟩ := nextPseudo_adv E P hP st st' tok hinv.line.max hinv.line.pos h
  have hl' := hinv.line.of_adv hadv hpm
  unfold nextPseudoMatches at h
  split at h
  · injection h with h; injection h with h1 h2; subst h1; subst h2
    exact ⟨hinv, (by intro t ht; cases ht), fun _ _ _ _ => Or.inl rfl⟩
  · rename_i hcond
    simp only [Bool.or_eq_true, decide_eq_true_eq, not_or] at hcond
    obtain ⟨hnmax, hnM⟩ := hcond
    split at h
    · cases h
    · injection h with h; injection h with h1 h2; subst h1; subst h2
      exact ⟨hinv, (by intro t ht; cases ht), fun _ _ _ _ => Or.inl rfl⟩
    · rename_i group e hm
      have hge := matchBranches_ge _ _ _ _ _ _ _ hm
      have hbd : e ≤ st.max := by rw [hinv.line.max]; exact matchBranches_le _ _ _ _ _ _ _ (by rw [← hinv.line.max]; exact hinv.line.pos) hm
      -- the top is neither a plain string (it would have swallowed the line) nor an f-string literal part
      have htop : TopBC { st with pos := e } := by
        intro q more hq
        have hq' : st.endProgs = q :: more := hq
        have hNf : isN q = false := by
          cases hN : isN q with
          | false => rfl
          | true => exact absurd (hat q more hq' hN) hnmax
        unfold TState.inMiddle at hnM; rw [hq'] at hnM
        unfold isN at hNf; unfold isB isC
        cases hmode : q.mode <;> simp [hmode] at hNf hnM ⊢
      have hl1 : LineOK lines { st with pos := e } := ⟨hinv.line.one, hinv.line.cur, hinv.line.max, hbd⟩
      obtain ⟨a, b, c⟩ := pseudoAction_inv lines { st with pos := e } st' group st.pos e tok hl1 hinv.shape htop hge rfl h
      obtain ⟨_, _, _, f4⟩ := pseudoAction_frame _ _ _ _ _ _ h
      simp only [] at f4
      refine ⟨⟨hl', a, b⟩, c, ?_⟩
      intro q more hq hN
      by_cases hg : group = "End"
      · -- a line continuation: the stack is untouched, and its top was not a plain string
        exfalso
        subst hg
        simp only [pseudoAction] at h
        have hend : st'.endProgs = st.endProgs := by
          simp (config := { decide := true }) at h
          split at h
          · injection h with h; injection h with _ h2; rw [← h2]
          · injection h with h; injection h with _ h2; rw [← h2]
        rw [hend] at hq
        have := notN_of_BC (htop q more hq)
        rw [this] at hN; cases hN
      · exact Or.inr (by rw [f4]; exact matchBranches_gt E _ P hP _ _ _ _ hg hm)

end XV.Tz

namespace XV.Tz
open XV XV.Rx

theorem scanLine_inv (lines : List (List Nat)) (E : Env) (P : Pats) (hP : PseudoProgress P) :
    ∀ (fuel : Nat) (st : TState) (acc : List Tok5) (st' : TState) (acc' : List Tok5),
      Inv lines st → StrOK lines acc → scanLine E P fuel st acc = .ok (st', acc') →
      Inv lines st' ∧ StrOK lines acc' ∧ st'.pos = st'.max := by
  intro fuel
  induction fuel with
  | zero => intro st acc st' acc' _ _ h; simp [scanLine] at h
  | succ fuel ih =>
    intro st acc st' acc' hinv hacc h
    unfold scanLine at h
    split at h
    · rename_i hlt
      split at h
      · cases h
      · rename_i ts1 st1 h1
        obtain ⟨hinv1, hstr1, hat1⟩ := handleEndProgs_inv lines E P st st1 ts1 hinv h1
        have hadv1 := handleEndProgs_adv E P st st1 ts1 hinv.line.max hinv.line.pos h1
        split at h
        · cases h
        · rename_i t st2 h2
          obtain ⟨hinv2, htok, _⟩ := nextPseudoMatches_inv lines E P hP st1 st2 (some t) hinv1 hat1 h2
          refine ih st2 _ st' acc' hinv2 ?_ h
          refine (hacc.append hstr1).append ?_
          intro t' ht' hty
          simp only [List.mem_singleton] at ht'
          subst ht'
          exact absurd hty (htok _ rfl)
        · rename_i st2 h2
          obtain ⟨hinv2, _, hprog⟩ := nextPseudoMatches_inv lines E P hP st1 st2 none hinv1 hat1 h2
          obtain ⟨hadv2, _, _⟩ := nextPseudo_adv E P hP st1 st2 none hinv1.line.max hinv1.line.pos h2
          simp only [] at h
          split at h
          · -- no progress at all: one character becomes an ERRORTOKEN
            rename_i heq
            have hnotN : ∀ q more, st2.endProgs = q :: more → isN q = false := by
              intro q more hq
              cases hN : isN q with
              | false => rfl
              | true =>
                exfalso
                rcases hprog q more hq hN with he | hlt2
                · -- unchanged: a plain string on top of st1 had swallowed the line
                  have := hat1 q more (he ▸ hq) hN
                  have h1m := hadv1.1.max
                  have : st2.pos = st2.max := by rw [he]; exact this
                  have := hadv2.max; have := hadv1.1.max
                  omega
                · have := hadv1.1.ge; omega
            have hlt2 : st2.pos < st2.max := by
              have := hadv2.max; have := hadv1.1.max; omega
            refine ih { st2 with pos := st2.pos + 1 } _ st' acc' ⟨⟨hinv2.line.one, hinv2.line.cur, hinv2.line.max, by simp only []; omega⟩, hinv2.shape, topOK_of_notN lines _ hnotN⟩ ?_ h
            refine (hacc.append hstr1).append ?_
            intro t' ht' hty
            simp only [List.mem_singleton] at ht'
            subst ht'
            simp at hty
          · exact ih st2 _ st' acc' hinv2 (hacc.append hstr1) h
    · rename_i hge
      injection h with h; injection h with h1 h2; subst h1; subst h2
      exact ⟨hinv, hacc, by have := hinv.line.pos; omega⟩

end XV.Tz

namespace XV.Tz
open XV XV.Rx

def NoString (ts : List Tok5) : Prop := ∀ t ∈ ts, t.ty ≠ .STRING

theorem dedents_noString (col lnum pos : Nat) (line : List Nat) : ∀ (fuel : Nat) (ind : List Nat) (acc : List Tok5) (ind' : List Nat) (acc' : List Tok5),
    NoString acc → dedents col lnum pos line fuel ind acc = .ok (ind', acc') → NoString acc'
  | 0, ind, acc, ind', acc', ha, h => by
    simp only [dedents] at h; injection h with h; injection h with _ h2; subst h2; exact ha
  | fuel + 1, ind, acc, ind', acc', ha, h => by
    simp only [dedents] at h
    split at h
    · injection h with h; injection h with _ h2; subst h2; exact ha
    · split at h
      · split at h
        · cases h
        · refine dedents_noString col lnum pos line fuel _ _ ind' acc' ?_ h
          intro t ht
          rcases List.mem_append.mp ht with h1 | h1
          · exact ha t h1
          · simp only [List.mem_singleton] at h1; subst h1; simp
      · injection h with h; injection h with _ h2; subst h2; exact ha

theorem nextStatement_noString (P : Pats) (st st' : TState) (ts : List Tok5) (a : StmtAction)
    (h : nextStatement P st = .ok (ts, st', a)) : NoString ts ∧ st'.endProgs = st.endProgs := by
  unfold nextStatement at h
  split at h
  · injection h with h; injection h with h0 h; injection h with h1 h2; subst h0; subst h1
    exact ⟨(by intro t ht; cases ht), rfl⟩
  · simp only [] at h
    split at h
    · injection h with h; injection h with h0 h; injection h with h1 h2; subst h0; subst h1
      exact ⟨(by intro t ht; cases ht), rfl⟩
    · split at h
      · split at h
        · injection h with h; injection h with h0 h; injection h with h1 h2; subst h0; subst h1
          refine ⟨?_, rfl⟩
          intro t ht
          simp only [List.mem_cons, List.mem_singleton, List.not_mem_nil, or_false] at ht
          rcases ht with ht | ht <;> (subst ht; simp)
        · injection h with h; injection h with h0 h; injection h with h1 h2; subst h0; subst h1
          refine ⟨?_, rfl⟩
          intro t ht
          simp only [List.mem_singleton] at ht
          subst ht; simp
      · split at h
        · cases h
        · rename_i ind2 toks2 hd
          injection h with h; injection h with h0 h; injection h with h1 h2; subst h0; subst h1
          refine ⟨dedents_noString _ _ _ _ _ _ _ _ _ ?_ hd, rfl⟩
          intro t ht
          split at ht
          · simp only [List.mem_singleton] at ht; subst ht; simp
          · cases ht

end XV.Tz

namespace XV.Tz
open XV XV.Rx

/-- between two lines: the shape holds and a plain string on top has accumulated the source up to the start of the
    next line -/
structure Between (lines : List (List Nat)) (st : TState) : Prop where
  shape : validStack st.endProgs = true
  top : ∀ p rest, st.endProgs = p :: rest → textMode p = true →
    p.text = srcText lines p.start ⟨st.lnum + 1, 0⟩ ∧ off lines p.start ≤ off lines ⟨st.lnum + 1, 0⟩

theorem between_init (lines : List (List Nat)) : Between lines TState.init :=
  ⟨rfl, by intro p rest hp; cases hp⟩

theorem between_of_inv (lines : List (List Nat)) (st : TState) (hinv : Inv lines st) (hend : st.pos = st.max) : Between lines st := by
  refine ⟨hinv.shape, ?_⟩
  intro p rest hp hm
  obtain ⟨htxt, hoff⟩ := hinv.top p rest hp hm
  have he := off_line_end lines st.lnum st.line.toList hinv.line.one hinv.line.cur
  simp only [Array.length_toList] at he
  have hpos : st.pos = st.line.size := by rw [hend, hinv.line.max]
  rw [hpos] at htxt hoff
  refine ⟨?_, by rw [← he]; exact hoff⟩
  rw [htxt]; unfold srcText; rw [he]

theorem inv_of_between (lines : List (List Nat)) (st : TState) (l : List Nat) (hb : Between lines st)
    (hl : lines[st.lnum]? = some l) : Inv lines (st.moveNextLine l) := by
  refine ⟨⟨by simp [TState.moveNextLine], ?_, by simp [TState.moveNextLine], by simp [TState.moveNextLine]⟩, hb.shape, ?_⟩
  · simp only [TState.moveNextLine, Nat.add_sub_cancel, List.toList_toArray]; exact hl
  · intro p rest hp hm
    exact hb.top p rest hp hm

/-- `lineHead` keeps the invariant when the scan of the line goes on, emits no malformed STRING token, and leaves an
    empty stack when the line is skipped as blank / comment -/
theorem lineHead_inv (lines : List (List Nat)) (E : Env) (P : Pats) (st s : TState) (ts : List Tok5) (cont brk : Bool)
    (hinv : Inv lines st) (h : lineHead E P st = .ok (s, ts, cont, brk)) :
    StrOK lines ts ∧ (cont = false → brk = false → Inv lines s) ∧ (cont = true → s.endProgs = []) := by
  have hspec := lineHead_spec E P st s ts cont brk hinv.line.max hinv.line.pos h
  have hlnum := lineHead_lnum E P st s ts cont brk hinv.line.max hinv.line.pos h
  have hline := lineHead_line E P st s ts cont brk hinv.line.max hinv.line.pos h
  have mkLine : cont = false → brk = false → LineOK lines s := fun hc hb =>
    ⟨by rw [hlnum]; exact hinv.line.one, by rw [hlnum, hline]; exact hinv.line.cur, hspec.1, hspec.2 hc hb⟩
  unfold lineHead at h
  split at h
  · split at h
    · cases h
    · rename_i ts0 s0 h0
      injection h with h; injection h with h1 h; injection h with h2 h; injection h with h3 h4
      subst h1; subst h2; subst h3; subst h4
      have hinv0 : Inv lines { st with continued := false } := ⟨⟨hinv.line.one, hinv.line.cur, hinv.line.max, hinv.line.pos⟩, hinv.shape, hinv.top⟩
      obtain ⟨a, b, _⟩ := handleEndProgs_inv lines E P _ _ _ hinv0 h0
      exact ⟨b, fun _ _ => a, (by intro hc; cases hc)⟩
  · rename_i hemp
    have hnil : st.endProgs = [] := by simpa using hemp
    split at h
    · split at h
      · cases h
      · rename_i ts0 s0 h0
        injection h with h; injection h with h1 h; injection h with h2 h; injection h with h3 h4
        subst h1; subst h2; subst h3; subst h4
        obtain ⟨hns, hep⟩ := nextStatement_noString P st _ _ _ h0
        exact ⟨StrOK.of_noString hns, (by intro hc; cases hc), fun _ => by rw [hep, hnil]⟩
      · rename_i ts0 s0 h0
        injection h with h; injection h with h1 h; injection h with h2 h; injection h with h3 h4
        subst h1; subst h2; subst h3; subst h4
        obtain ⟨hns, hep⟩ := nextStatement_noString P st _ _ _ h0
        exact ⟨StrOK.of_noString hns, (by intro _ hb; cases hb), (by intro hc; cases hc)⟩
      · rename_i ts0 s0 h0
        injection h with h; injection h with h1 h; injection h with h2 h; injection h with h3 h4
        subst h1; subst h2; subst h3; subst h4
        obtain ⟨hns, hep⟩ := nextStatement_noString P st _ _ _ h0
        refine ⟨StrOK.of_noString hns, fun hc hb => ⟨mkLine hc hb, (by rw [hep, hnil]; rfl), ?_⟩, (by intro hc; cases hc)⟩
        intro p rest hp; rw [hep, hnil] at hp; cases hp
    · split at h
      · cases h
      · injection h with h; injection h with h1 h; injection h with h2 h; injection h with h3 h4
        subst h1; subst h2; subst h3; subst h4
        refine ⟨StrOK.nil _, fun hc hb => ⟨mkLine hc hb, (by simp only [hnil]; rfl), ?_⟩, (by intro hc; cases hc)⟩
        intro p rest hp; simp only [hnil] at hp; cases hp

end XV.Tz

namespace XV.Tz
open XV XV.Rx

theorem nextEndTokens_noString (ll : List Nat) (lc : Bool) (st : TState) : NoString (nextEndTokens ll lc st) := by
  unfold nextEndTokens
  intro t ht
  simp only [List.mem_append, List.mem_map, List.mem_singleton] at ht
  rcases ht with (ht | ht) | ht
  · split at ht
    · split at ht
      · simp only [List.mem_singleton] at ht; subst ht; simp
      · cases ht
    · cases ht
  · obtain ⟨_, _, rfl⟩ := ht; simp
  · subst ht; simp

/-- the whole line loop: every STRING token it ever emits is the source slice between its coordinates -/
theorem tokenizeLines_strings (lines : List (List Nat)) (E : Env) (P : Pats) (hP : PseudoProgress P) :
    ∀ (fuel : Nat) (rest : List (List Nat)) (st : TState) (acc out : List Tok5),
      Between lines st → rest = lines.drop st.lnum → StrOK lines acc →
      tokenizeLines E P fuel rest st acc = .ok out → StrOK lines out := by
  intro fuel
  induction fuel with
  | zero => intro rest st acc out _ _ _ h; simp [tokenizeLines] at h
  | succ fuel ih =>
    intro rest st acc out hb hrest hacc h
    simp only [tokenizeLines] at h
    cases hr : rest with
    | nil =>
      -- end of input: the last `readline()` returned ""
      rw [hr] at h
      simp only [List.headD_nil, List.tail_nil] at h
      have hempty : (st.moveNextLine []).line.isEmpty = true := by simp [TState.moveNextLine]
      split at h
      · cases h
      · rename_i s ts cont brk hlh
        have hbrk := lineHead_eof E P _ s ts cont brk hempty (by simp [TState.moveNextLine]) hlh
        subst hbrk
        simp only [if_true] at h
        injection h with h; subst h
        have hts : StrOK lines ts := by
          unfold lineHead at hlh
          split at hlh
          · split at hlh
            · cases hlh
            · injection hlh with hlh; injection hlh with _ hlh; injection hlh with _ hlh; injection hlh with _ e4; cases e4
          · split at hlh
            · split at hlh
              · cases hlh
              · rename_i ts0 s0 h0
                injection hlh with hlh; injection hlh with _ hlh; injection hlh with e2 _; subst e2
                exact StrOK.of_noString (nextStatement_noString P _ _ _ _ h0).1
              · rename_i ts0 s0 h0
                injection hlh with hlh; injection hlh with _ hlh; injection hlh with e2 _; subst e2
                exact StrOK.of_noString (nextStatement_noString P _ _ _ _ h0).1
              · rename_i ts0 s0 h0
                injection hlh with hlh; injection hlh with _ hlh; injection hlh with e2 _; subst e2
                exact StrOK.of_noString (nextStatement_noString P _ _ _ _ h0).1
            · cases hlh
        exact (hacc.append hts).append (StrOK.of_noString (nextEndTokens_noString _ _ _))
    | cons l rest' =>
      rw [hr] at h
      simp only [List.headD_cons, List.tail_cons] at h
      have hl : lines[st.lnum]? = some l := by
        have : (lines.drop st.lnum)[0]? = some l := by rw [← hrest, hr]; rfl
        simpa [List.getElem?_drop] using this
      have hrest' : rest' = lines.drop (st.lnum + 1) := by
        have := congrArg List.tail (hrest.symm.trans hr)
        simp only [List.tail_drop, List.tail_cons] at this
        exact this.symm
      have hinv0 := inv_of_between lines st l hb hl
      split at h
      · cases h
      · rename_i s ts cont brk hlh
        obtain ⟨hts, hgo, hcont⟩ := lineHead_inv lines E P _ s ts cont brk hinv0 hlh
        have hlnum : s.lnum = st.lnum + 1 := by
          have := lineHead_lnum E P _ s ts cont brk hinv0.line.max hinv0.line.pos hlh
          rw [this]; rfl
        cases brk with
        | true =>
          simp only [if_true] at h
          injection h with h; subst h
          exact (hacc.append hts).append (StrOK.of_noString (nextEndTokens_noString _ _ _))
        | false =>
          simp only [Bool.false_eq_true, if_false] at h
          cases cont with
          | true =>
            simp only [if_true] at h
            have hbs : Between lines s := ⟨by rw [hcont rfl]; rfl, by intro p r hp; rw [hcont rfl] at hp; cases hp⟩
            exact ih rest' s _ out hbs (by rw [hlnum]; exact hrest') (hacc.append hts) h
          | false =>
            simp only [Bool.false_eq_true, if_false] at h
            have hinvs := hgo rfl rfl
            split at h
            · cases h
            · rename_i s2 acc2 hsc
              obtain ⟨hinv2, hacc2, hend2⟩ := scanLine_inv lines E P hP _ s _ s2 acc2 hinvs (hacc.append hts) hsc
              obtain ⟨hk1, _⟩ := scanLine_keeps E P hP _ s _ s2 acc2 hinvs.line.max hinvs.line.pos hsc
              exact ih rest' s2 _ out (between_of_inv lines s2 hinv2 hend2) (by rw [hk1, hlnum]; exact hrest') hacc2 h

end XV.Tz
