/-
  C11 / C08 - token coordinates point into the source: every token starts on a line of the text (or on the line right
  after the last one: DEDENT / ENDMARKER) at a column that is at most that line's length.
  A small overlay: it needs no shape of the mode stack, only that every prog on it started inside the text.
-/
import XonshVerif.Proofs.TokGaps
set_option linter.unusedSimpArgs false
namespace XV.Tz
open XV XV.Rx

/-- `p` is a position of the text: a line of it (or the first line after it) and a column inside that line -/
def StartOK (lines : List (List Nat)) (p : Pos) : Prop :=
  1 ≤ p.line ∧ p.line ≤ lines.length + 1 ∧ p.col ≤ (lines[p.line - 1]?.getD []).length

def TB (lines : List (List Nat)) (ts : List Tok5) : Prop := ∀ t ∈ ts, StartOK lines t.start

theorem TB.nil (lines : List (List Nat)) : TB lines [] := by intro t ht; cases ht
theorem TB.append {lines : List (List Nat)} {a b : List Tok5} (ha : TB lines a) (hb : TB lines b) : TB lines (a ++ b) := by
  intro t ht; rcases List.mem_append.mp ht with h | h
  · exact ha t h
  · exact hb t h
theorem TB.single {lines : List (List Nat)} {t : Tok5} (h : StartOK lines t.start) : TB lines [t] := by
  intro u hu; simp only [List.mem_singleton] at hu; subst hu; exact h

/-- a column of the current line -/
theorem StartOK.on_line (lines : List (List Nat)) (st : TState) (hl : LineOK lines st) (c : Nat) (hc : c ≤ st.max) : StartOK lines ⟨st.lnum, c⟩ := by
  have hlt := (List.getElem?_eq_some_iff.mp hl.cur).1
  refine ⟨hl.one, by simp only []; omega, ?_⟩
  simp only []
  rw [hl.cur]
  simp only [Option.getD_some, Array.length_toList]
  rw [← hl.max]; exact hc

structure BI (lines : List (List Nat)) (st : TState) : Prop where
  line : LineOK lines st
  progs : ∀ p ∈ st.endProgs, StartOK lines p.start

theorem popMode_progs (lines : List (List Nat)) (st : TState) (e : Option Pos) (h : ∀ p ∈ st.endProgs, StartOK lines p.start)
    (he : ∀ pos, e = some pos → StartOK lines pos) : ∀ p ∈ (st.popMode e).endProgs, StartOK lines p.start := by
  unfold TState.popMode
  split
  · exact h
  · rename_i top rest hst
    have hrest : ∀ p ∈ rest, StartOK lines p.start := fun p hp => h p (by rw [hst]; exact List.mem_cons_of_mem _ hp)
    split
    · rename_i q more pos
      intro p hp
      simp only [List.mem_cons] at hp
      rcases hp with rfl | hp
      · exact he pos rfl
      · exact hrest p (List.mem_cons_of_mem _ hp)
    · exact hrest

theorem addProg_progs (lines : List (List Nat)) (st : TState) (s e : Nat) (m : Mode) (pat : PatKind) (q : List Nat)
    (h : ∀ p ∈ st.endProgs, StartOK lines p.start) (hs : StartOK lines ⟨st.lnum, s⟩) :
    ∀ p ∈ (st.addProg s e m pat q).endProgs, StartOK lines p.start := by
  intro p hp
  simp only [TState.addProg, List.mem_cons] at hp
  rcases hp with rfl | hp
  · exact hs
  · exact h p hp

theorem progToken_b (lines : List (List Nat)) (st : TState) (e : Nat) (ty : TT) (h : ∀ p ∈ st.endProgs, StartOK lines p.start)
    (hne : st.endProgs ≠ []) :
    StartOK lines (st.progToken e ty).1.start ∧ ∀ p ∈ (st.progToken e ty).2.endProgs, StartOK lines p.start := by
  unfold TState.progToken
  split
  · rename_i hnil; exact absurd hnil hne
  · rename_i p rest hst
    refine ⟨h p (by rw [hst]; simp), ?_⟩
    intro q hq
    simp only [List.mem_cons] at hq
    rcases hq with rfl | hq
    · exact h p (by rw [hst]; simp)
    · exact h q (by rw [hst]; exact List.mem_cons_of_mem _ hq)

theorem emitMiddle_b (lines : List (List Nat)) (st : TState) (me : Nat) (prog : EndProg) (h : ∀ p ∈ st.endProgs, StartOK lines p.start)
    (hne : st.endProgs ≠ []) :
    TB lines (emitMiddle st me prog).1 ∧ (∀ p ∈ (emitMiddle st me prog).2.endProgs, StartOK lines p.start) ∧
    ((emitMiddle st me prog).2.pos = me ∨ (emitMiddle st me prog).2.pos = st.pos) ∧ (emitMiddle st me prog).2.lnum = st.lnum := by
  unfold emitMiddle
  split
  · obtain ⟨a, b⟩ := progToken_b lines st me .FSTRING_MIDDLE h hne
    refine ⟨TB.single a, b, Or.inl ?_, progToken_lnum _ _ _⟩
    rcases (progToken_spec st me .FSTRING_MIDDLE).2.2.2 with h1 | ⟨h1, _⟩
    · exact h1
    · exact absurd h1 hne
  · exact ⟨TB.nil _, h, Or.inr rfl, rfl⟩


theorem handleFstringProgs_b (lines : List (List Nat)) (E : Env) (P : Pats) (st st' : TState) (ts : List Tok5) (mt : Bool)
    (hb : BI lines st) (h : handleFstringProgs E P st = .ok (ts, st', mt)) : TB lines ts ∧ BI lines st' := by
  obtain ⟨hadv, hle'⟩ := handleFstringProgs_adv E P st st' ts mt hb.line.max hb.line.pos h
  have hl' : LineOK lines st' := hb.line.of_adv hadv hle'
  unfold handleFstringProgs at h
  split at h
  · injection h with h; injection h with h1 h; injection h with h2 h3; subst h1; subst h2
    exact ⟨TB.nil _, hb⟩
  · rename_i prog rest hprogs
    have hne : st.endProgs ≠ [] := by rw [hprogs]; simp
    split at h
    · cases h
    · injection h with h; injection h with h1 h; injection h with h2 h3; subst h1; subst h2
      exact ⟨TB.nil _, hb⟩
    · rename_i group e hm
      have hge := matchBranches_ge _ _ _ _ _ _ _ hm
      have hbd : e ≤ st.max := by rw [hb.line.max]; exact matchBranches_le _ _ _ _ _ _ _ (by rw [← hb.line.max]; exact hb.line.pos) hm
      simp only [] at h
      have key : ∀ me, me ≤ e → StartOK lines ⟨(emitMiddle st me prog).2.lnum, (emitMiddle st me prog).2.pos⟩ ∧ StartOK lines ⟨(emitMiddle st me prog).2.lnum, e⟩ := by
        intro me hme
        obtain ⟨_, _, hpos, hln⟩ := emitMiddle_b lines st me prog hb.progs hne
        rw [hln]
        refine ⟨StartOK.on_line lines st hb.line _ ?_, StartOK.on_line lines st hb.line _ hbd⟩
        rcases hpos with hp | hp
        · rw [hp]; omega
        · rw [hp]; exact hb.line.pos
      split at h
      · injection h with h; injection h with h1 h; injection h with h2 h3; subst h1; subst h2
        exact ⟨TB.nil _, hb⟩
      · split at h
        · injection h with h; injection h with h1 h; injection h with h2 h3; subst h1; subst h2
          obtain ⟨a, b, _, _⟩ := emitMiddle_b lines st (e - prog.quote.length) prog hb.progs hne
          refine ⟨TB.append a (TB.single (key _ (by omega)).1), hl', ?_⟩
          exact popMode_progs lines _ none b (by intro pos hc; cases hc)
        · split at h
          · injection h with h; injection h with h1 h; injection h with h2 h3; subst h1; subst h2
            obtain ⟨a, b, _, _⟩ := emitMiddle_b lines st (e - 1) prog hb.progs hne
            refine ⟨TB.append a (TB.single (key _ (by omega)).1), hl', ?_⟩
            exact addProg_progs lines ({ (emitMiddle st (e - 1) prog).2 with parenlev := (emitMiddle st (e - 1) prog).2.parenlev + 1 } : TState) e e _ _ _ b (key _ (by omega)).2
          · injection h with h; injection h with h1 h; injection h with h2 h3; subst h1; subst h2
            obtain ⟨a, b, _, _⟩ := emitMiddle_b lines st (e - 1) prog hb.progs hne
            refine ⟨TB.append a (TB.single (key _ (by omega)).1), hl', ?_⟩
            show ∀ p ∈ (TState.popMode _ _).endProgs, StartOK lines p.start
            apply popMode_progs lines _ _ (popMode_progs lines ({ (emitMiddle st (e - 1) prog).2 with parenlev := (emitMiddle st (e - 1) prog).2.parenlev - 1 } : TState) none b (by intro pos hc; cases hc))
            intro pos hc
            injection hc with hc
            rw [← hc]
            exact (key _ (by omega)).2

theorem handleEndProgs_b (lines : List (List Nat)) (E : Env) (P : Pats) (st st' : TState) (ts : List Tok5)
    (hb : BI lines st) (h : handleEndProgs E P st = .ok (ts, st')) : TB lines ts ∧ BI lines st' := by
  obtain ⟨hadv, hle'⟩ := handleEndProgs_adv E P st st' ts hb.line.max hb.line.pos h
  have hl' : LineOK lines st' := hb.line.of_adv hadv hle'
  unfold handleEndProgs at h
  split at h
  · injection h with h; injection h with h1 h2; subst h1; subst h2; exact ⟨TB.nil _, hb⟩
  · rename_i prog rest hp
    have hne : st.endProgs ≠ [] := by rw [hp]; simp
    split at h
    · cases h
    · split at h
      · injection h with h; injection h with h1 h2; subst h1; subst h2; exact ⟨TB.nil _, hb⟩
      · split at h
        · cases h
        · rename_i ts1 s1 m1 e1 hstep
          -- the step
          have hs : TB lines ts1 ∧ ∀ p ∈ s1.endProgs, StartOK lines p.start := by
            unfold endProgStep at hstep
            split at hstep
            · split at hstep
              · cases hstep
              · rename_i ts0 s0 m0 hf
                injection hstep with hstep; injection hstep with h1 hstep; injection hstep with h2 hstep; subst h1; subst h2
                obtain ⟨a, b⟩ := handleFstringProgs_b lines E P st _ _ _ hb hf
                exact ⟨a, b.progs⟩
            · split at hstep
              · cases hstep
              · rename_i nm e hm
                injection hstep with hstep; injection hstep with h1 hstep; injection hstep with h2 hstep; subst h1; subst h2
                obtain ⟨a, b⟩ := progToken_b lines st e .STRING hb.progs hne
                exact ⟨TB.single a, popMode_progs lines _ none b (by intro pos hc; cases hc)⟩
              · injection hstep with hstep; injection hstep with h1 hstep; injection hstep with h2 hstep; subst h1; subst h2
                exact ⟨TB.nil _, hb.progs⟩
          -- the finish
          unfold endProgFinish at h
          split at h
          · injection h with h; injection h with h1 h2; subst h1; subst h2; exact ⟨hs.1, hl', hs.2⟩
          · split at h
            · injection h with h; injection h with h1 h2; subst h1; subst h2; exact ⟨hs.1, hl', hs.2⟩
            · split at h
              · injection h with h; injection h with h1 h2; subst h1; subst h2; exact ⟨hs.1, hl', hs.2⟩
              · split at h
                · split at h
                  · injection h with h; injection h with h1 h2; subst h1; subst h2; exact ⟨hs.1, hl', hs.2⟩
                  · rename_i p rest' hp'
                    injection h with h; injection h with h1 h2; subst h1; subst h2
                    refine ⟨hs.1, hl', ?_⟩
                    intro q hq
                    simp only [List.mem_cons] at hq
                    rcases hq with rfl | hq
                    · exact hs.2 p (by rw [hp']; simp)
                    · exact hs.2 q (by rw [hp']; exact List.mem_cons_of_mem _ hq)
                · split at h
                  · cases h
                  · injection h with h; injection h with h1 h2; subst h1; subst h2; exact ⟨hs.1, hl', hs.2⟩


theorem specialAction_b (lines : List (List Nat)) (st : TState) (start e : Nat) (hl : LineOK lines st) (hpos : st.pos = e)
    (hp : ∀ p ∈ st.endProgs, StartOK lines p.start) : ∀ p ∈ (specialAction st start e).endProgs, StartOK lines p.start := by
  have hemax : e ≤ st.max := by rw [← hpos]; exact hl.pos
  have he : StartOK lines ⟨st.lnum, e⟩ := StartOK.on_line lines st hl e hemax
  unfold specialAction
  split
  · exact hp
  · split
    · by_cases hc : (st.inBraces && st.atParenlev) = true
      · simp only [hc, if_true]
        show ∀ p ∈ (st.popMode _).endProgs, StartOK lines p.start
        exact popMode_progs lines st _ hp (by intro pos hq; injection hq with hq; rw [← hq]; exact he)
      · simp only [hc, if_false, Bool.false_eq_true]
        exact hp
    · split
      · rename_i hcol
        simp only [Bool.and_eq_true, decide_eq_true_eq] at hcol
        have hlt : start < e := slice_nonempty_lt st.line start e (by rw [hcol.1.1]; simp)
        exact addProg_progs lines st (start + 1) e _ _ _ hp (StartOK.on_line lines st hl _ (by omega))
      · exact hp

set_option hygiene false in
macro "b_ok" : tactic => `(tactic| (injection h with h; injection h with h1 h2; subst h1; subst h2; exact ⟨(fun t ht => by injection ht with ht; subst ht; exact hs), hp⟩))

theorem pseudoAction_b (lines : List (List Nat)) (st st' : TState) (group : String) (start e : Nat) (tok : Option Tok5)
    (hl : LineOK lines st) (hse : start ≤ e) (hpos : st.pos = e) (hp : ∀ p ∈ st.endProgs, StartOK lines p.start)
    (h : pseudoAction st group start e = .ok (tok, st')) :
    (∀ t, tok = some t → StartOK lines t.start) ∧ ∀ p ∈ st'.endProgs, StartOK lines p.start := by
  have hemax : e ≤ st.max := by rw [← hpos]; exact hl.pos
  have hs : StartOK lines ⟨st.lnum, start⟩ := StartOK.on_line lines st hl start (by omega)
  have he : StartOK lines ⟨st.lnum, e⟩ := StartOK.on_line lines st hl e hemax
  unfold pseudoAction at h
  split at h
  · split at h
    · injection h with h; injection h with h1 h2; subst h1; subst h2
      exact ⟨(fun t ht => by injection ht with ht; subst ht; exact hs), addProg_progs lines st e e _ _ _ hp he⟩
    · injection h with h; injection h with h1 h2; subst h1; subst h2
      exact ⟨(fun t ht => by cases ht), addProg_progs lines st start e _ _ _ hp hs⟩
  · split at h
    · b_ok
    · split at h
      · b_ok
      · split at h
        · b_ok
        · split at h
          · b_ok
          · split at h
            · b_ok
            · split at h
              · b_ok
              · split at h
                · injection h with h; injection h with h1 h2; subst h1; subst h2
                  exact ⟨(fun t ht => by injection ht with ht; subst ht; exact hs), specialAction_b lines st start e hl hpos hp⟩
                · split at h
                  · injection h with h; injection h with h1 h2; subst h1; subst h2
                    exact ⟨(fun t ht => by cases ht), hp⟩
                  · cases h

theorem nextPseudoMatches_b (lines : List (List Nat)) (E : Env) (P : Pats) (hP : PseudoProgress P) (st st' : TState) (tok : Option Tok5)
    (hb : BI lines st) (h : nextPseudoMatches E P st = .ok (tok, st')) :
    (∀ t, tok = some t → StartOK lines t.start) ∧ BI lines st' := by
  obtain ⟨hadv, hle', _⟩ := nextPseudo_adv E P hP st st' tok hb.line.max hb.line.pos h
  have hl' : LineOK lines st' := hb.line.of_adv hadv hle'
  unfold nextPseudoMatches at h
  split at h
  · injection h with h; injection h with h1 h2; subst h1; subst h2
    exact ⟨(fun t ht => by cases ht), hb⟩
  · split at h
    · cases h
    · injection h with h; injection h with h1 h2; subst h1; subst h2
      exact ⟨(fun t ht => by cases ht), hb⟩
    · rename_i group e hm
      have hge := matchBranches_ge _ _ _ _ _ _ _ hm
      have hbd : e ≤ st.max := by rw [hb.line.max]; exact matchBranches_le _ _ _ _ _ _ _ (by rw [← hb.line.max]; exact hb.line.pos) hm
      obtain ⟨a, b⟩ := pseudoAction_b lines { st with pos := e } st' group st.pos e tok
        ⟨hb.line.one, hb.line.cur, hb.line.max, hbd⟩ hge rfl hb.progs h
      exact ⟨a, hl', b⟩

/-- the scan loop of one line -/
theorem scanLine_b (lines : List (List Nat)) (E : Env) (P : Pats) (hP : PseudoProgress P) :
    ∀ (fuel : Nat) (st st' : TState) (acc acc' : List Tok5), BI lines st → TB lines acc →
      scanLine E P fuel st acc = .ok (st', acc') → TB lines acc' ∧ BI lines st' := by
  intro fuel
  induction fuel with
  | zero => intro st st' acc acc' _ _ h; simp [scanLine] at h
  | succ fuel ih =>
    intro st st' acc acc' hb hacc h
    unfold scanLine at h
    split at h
    · rename_i hlt
      split at h
      · cases h
      · rename_i ts1 st1 h1
        obtain ⟨t1, b1⟩ := handleEndProgs_b lines E P st st1 ts1 hb h1
        split at h
        · cases h
        · rename_i t st2 h2
          obtain ⟨t2, b2⟩ := nextPseudoMatches_b lines E P hP st1 st2 (some t) b1 h2
          exact ih st2 st' _ acc' b2 (TB.append (TB.append hacc t1) (TB.single (t2 t rfl))) h
        · rename_i st2 h2
          obtain ⟨_, b2⟩ := nextPseudoMatches_b lines E P hP st1 st2 none b1 h2
          obtain ⟨a1, _⟩ := handleEndProgs_adv E P st st1 ts1 hb.line.max hb.line.pos h1
          obtain ⟨a2, _, _⟩ := nextPseudo_adv E P hP st1 st2 none b1.line.max b1.line.pos h2
          simp only [] at h
          split at h
          · rename_i heq
            refine ih { st2 with pos := st2.pos + 1 } st' _ acc' ?_ ?_ h
            · exact ⟨⟨b2.line.one, b2.line.cur, b2.line.max, by show st2.pos + 1 ≤ st2.max; have := a1.max; have := a2.max; omega⟩, b2.progs⟩
            · exact TB.append (TB.append hacc t1) (TB.single (StartOK.on_line lines st2 b2.line _ b2.line.pos))
          · exact ih st2 st' _ acc' b2 (TB.append hacc t1) h
    · injection h with h; injection h with h1 h2; subst h1; subst h2
      exact ⟨hacc, hb⟩


theorem dedents_b (lines : List (List Nat)) (col lnum pos : Nat) (line : List Nat) (hs : StartOK lines ⟨lnum, pos⟩) :
    ∀ (fuel : Nat) (ind : List Nat) (acc : List Tok5) (ind' : List Nat) (acc' : List Tok5),
    TB lines acc → dedents col lnum pos line fuel ind acc = .ok (ind', acc') → TB lines acc' := by
  intro fuel
  induction fuel with
  | zero => intro ind acc ind' acc' ha h; simp only [dedents] at h; injection h with h; injection h with _ h2; subst h2; exact ha
  | succ fuel ih =>
    intro ind acc ind' acc' ha h
    simp only [dedents] at h
    split at h
    · injection h with h; injection h with _ h2; subst h2; exact ha
    · split at h
      · split at h
        · cases h
        · exact ih _ _ _ _ (TB.append ha (TB.single hs)) h
      · injection h with h; injection h with _ h2; subst h2; exact ha

theorem nextStatement_b (lines : List (List Nat)) (P : Pats) (st st' : TState) (ts : List Tok5) (a : StmtAction)
    (hl : LineOK lines st) (hpos : st.pos = 0) (h : nextStatement P st = .ok (ts, st', a)) : TB lines ts := by
  have hple := measureIndent_le P.tabsize st.line (st.max + 1) 0 st.pos (by rw [hpos]; exact Nat.zero_le _)
  rw [hpos] at hple
  have hsz : st.line.toList.length = st.max := by rw [hl.max]; simp
  have hcol : ∀ c, c ≤ st.max → StartOK lines ⟨st.lnum, c⟩ := fun c hc => StartOK.on_line lines st hl c hc
  have hp' : (measureIndent P.tabsize st.line (st.max + 1) 0 0).2 ≤ st.max := by have := hl.max; omega
  unfold nextStatement at h
  rw [hpos] at h
  split at h
  · injection h with h; injection h with h1 h; subst h1; exact TB.nil _
  · simp only [] at h
    split at h
    · injection h with h; injection h with h1 h; subst h1; exact TB.nil _
    · split at h
      · split at h
        · injection h with h; injection h with h1 h; subst h1
          have hl2 := rstripNewlines_len (st.line.toList.drop (measureIndent P.tabsize st.line (st.max + 1) 0 0).2)
          rw [List.length_drop, hsz] at hl2
          intro t ht
          simp only [List.mem_cons, List.not_mem_nil, or_false] at ht
          rcases ht with rfl | rfl
          · exact hcol _ hp'
          · exact hcol _ (by omega)
        · injection h with h; injection h with h1 h; subst h1
          exact TB.single (hcol _ hp')
      · split at h
        · cases h
        · rename_i ind2 toks2 hd
          injection h with h; injection h with h1 h; subst h1
          refine dedents_b lines _ _ _ _ (hcol _ hp') _ _ _ _ _ ?_ hd
          split
          · exact TB.single (hcol 0 (Nat.zero_le _))
          · exact TB.nil _

theorem lineHead_b (lines : List (List Nat)) (E : Env) (P : Pats) (st s : TState) (ts : List Tok5) (cont brk : Bool)
    (hb : BI lines st) (hpos : st.pos = 0) (h : lineHead E P st = .ok (s, ts, cont, brk)) :
    TB lines ts ∧ (cont = false → brk = false → BI lines s) ∧ (cont = true → s.endProgs = []) := by
  have hspec := lineHead_spec E P st s ts cont brk hb.line.max hb.line.pos h
  have hlnum := lineHead_lnum E P st s ts cont brk hb.line.max hb.line.pos h
  have hline := lineHead_line E P st s ts cont brk hb.line.max hb.line.pos h
  have mkLine : cont = false → brk = false → LineOK lines s := fun hc hbk =>
    ⟨by rw [hlnum]; exact hb.line.one, by rw [hlnum, hline]; exact hb.line.cur, hspec.1, hspec.2 hc hbk⟩
  unfold lineHead at h
  split at h
  · split at h
    · cases h
    · rename_i ts0 s0 h0
      injection h with h; injection h with h1 h; injection h with h2 h; injection h with h3 h4
      subst h1; subst h2; subst h3; subst h4
      have hb0 : BI lines { st with continued := false } := ⟨⟨hb.line.one, hb.line.cur, hb.line.max, hb.line.pos⟩, hb.progs⟩
      obtain ⟨a, b⟩ := handleEndProgs_b lines E P _ _ _ hb0 h0
      exact ⟨a, fun _ _ => b, (by intro hc; cases hc)⟩
  · rename_i hemp
    have hnil : st.endProgs = [] := by simpa using hemp
    split at h
    · split at h
      · cases h
      · rename_i ts0 s0 h0
        injection h with h; injection h with h1 h; injection h with h2 h; injection h with h3 h4
        subst h1; subst h2; subst h3; subst h4
        obtain ⟨_, hep⟩ := nextStatement_noString P st _ _ _ h0
        exact ⟨nextStatement_b lines P st _ _ _ hb.line hpos h0, (by intro hc; cases hc), fun _ => by rw [hep, hnil]⟩
      · rename_i ts0 s0 h0
        injection h with h; injection h with h1 h; injection h with h2 h; injection h with h3 h4
        subst h1; subst h2; subst h3; subst h4
        exact ⟨nextStatement_b lines P st _ _ _ hb.line hpos h0, (by intro _ hbk; cases hbk), (by intro hc; cases hc)⟩
      · rename_i ts0 s0 h0
        injection h with h; injection h with h1 h; injection h with h2 h; injection h with h3 h4
        subst h1; subst h2; subst h3; subst h4
        obtain ⟨_, hep⟩ := nextStatement_noString P st _ _ _ h0
        refine ⟨nextStatement_b lines P st _ _ _ hb.line hpos h0, fun hc hbk => ⟨mkLine hc hbk, ?_⟩, (by intro hc; cases hc)⟩
        intro p hp; rw [hep, hnil] at hp; cases hp
    · split at h
      · cases h
      · injection h with h; injection h with h1 h; injection h with h2 h; injection h with h3 h4
        subst h1; subst h2; subst h3; subst h4
        refine ⟨TB.nil _, fun hc hbk => ⟨mkLine hc hbk, ?_⟩, (by intro hc; cases hc)⟩
        intro p hp; simp only [hnil] at hp; cases hp

theorem nextEndTokens_b (lines : List (List Nat)) (st s : TState) (hprev : PrevOK lines st) (hlnum : s.lnum = st.lnum + 1) :
    TB lines (nextEndTokens st.line.toList st.commentLine s) := by
  have hle : st.lnum ≤ lines.length := by
    rcases hprev with ⟨h0, _⟩ | ⟨h1, hcur⟩
    · omega
    · have := (List.getElem?_eq_some_iff.mp hcur).1; omega
  have hend : StartOK lines ⟨s.lnum, 0⟩ := ⟨by simp only []; omega, by simp only []; omega, Nat.zero_le _⟩
  unfold nextEndTokens
  intro t ht
  simp only [List.mem_append, List.mem_map, List.mem_singleton] at ht
  rcases ht with (ht | ht) | ht
  · split at ht
    · rename_i c hc
      split at ht
      · simp only [List.mem_singleton] at ht; subst ht
        rcases hprev with ⟨_, hnil⟩ | ⟨h1, hcur⟩
        · rw [hnil] at hc; simp at hc
        · refine ⟨by simp only []; omega, by simp only []; omega, ?_⟩
          simp only [hlnum, Nat.add_sub_cancel]
          rw [hcur]; simp
      · cases ht
    · cases ht
  · obtain ⟨_, _, rfl⟩ := ht; exact hend
  · subst ht; exact hend

/-- the whole line loop: every token starts inside the text -/
theorem tokenizeLines_b (lines : List (List Nat)) (E : Env) (P : Pats) (hP : PseudoProgress P) :
    ∀ (fuel : Nat) (rest : List (List Nat)) (st : TState) (acc out : List Tok5),
      (∀ p ∈ st.endProgs, StartOK lines p.start) → PrevOK lines st → rest = lines.drop st.lnum → TB lines acc →
      tokenizeLines E P fuel rest st acc = .ok out → TB lines out := by
  intro fuel
  induction fuel with
  | zero => intro rest st acc out _ _ _ _ h; simp [tokenizeLines] at h
  | succ fuel ih =>
    intro rest st acc out hprogs hprev hrest hacc h
    simp only [tokenizeLines] at h
    cases hr : rest with
    | nil =>
      rw [hr] at h
      simp only [List.headD_nil, List.tail_nil] at h
      have hempty : (st.moveNextLine []).line.isEmpty = true := by simp [TState.moveNextLine]
      split at h
      · cases h
      · rename_i s ts cont brk hlh
        have hbrk := lineHead_eof E P _ s ts cont brk hempty (by simp [TState.moveNextLine]) hlh
        have hts := lineHead_eof_ts E P _ s ts cont brk hempty (by simp [TState.moveNextLine]) hlh
        have hlnum : s.lnum = st.lnum + 1 := by
          have := lineHead_lnum E P _ s ts cont brk (by simp) (by simp [TState.moveNextLine]) hlh
          rw [this]; rfl
        subst hbrk; subst hts
        simp only [if_true] at h
        injection h with h; subst h
        exact (hacc.append (TB.nil _)).append (nextEndTokens_b lines st s hprev hlnum)
    | cons l rest' =>
      rw [hr] at h
      simp only [List.headD_cons, List.tail_cons] at h
      have hl : lines[st.lnum]? = some l := by
        have : (lines.drop st.lnum)[0]? = some l := by rw [← hrest, hr]; rfl
        simpa [List.getElem?_drop] using this
      have hrest' : rest' = lines.drop (st.lnum + 1) := by
        have := congrArg List.tail (hrest.symm.trans hr)
        simp only [List.tail_drop, List.tail_cons] at this
        exact this.symm
      have hb0 : BI lines (st.moveNextLine l) :=
        ⟨⟨by simp [TState.moveNextLine], by simp only [TState.moveNextLine, Nat.add_sub_cancel, List.toList_toArray]; exact hl,
          by simp [TState.moveNextLine], by simp [TState.moveNextLine]⟩, hprogs⟩
      split at h
      · cases h
      · rename_i s ts cont brk hlh
        obtain ⟨hts, hgo, hcont⟩ := lineHead_b lines E P _ s ts cont brk hb0 (by simp [TState.moveNextLine]) hlh
        have hlnum : s.lnum = st.lnum + 1 := by
          have := lineHead_lnum E P _ s ts cont brk hb0.line.max hb0.line.pos hlh
          rw [this]; rfl
        have hline : s.line = (st.moveNextLine l).line := lineHead_line E P _ s ts cont brk hb0.line.max hb0.line.pos hlh
        have hprevS : PrevOK lines s := by
          right
          refine ⟨by omega, ?_⟩
          rw [hlnum, Nat.add_sub_cancel, hline]
          simpa [TState.moveNextLine] using hl
        cases brk with
        | true =>
          simp only [if_true] at h
          injection h with h; subst h
          exact (hacc.append hts).append (nextEndTokens_b lines st s hprev hlnum)
        | false =>
          simp only [Bool.false_eq_true, if_false] at h
          cases cont with
          | true =>
            simp only [if_true] at h
            exact ih rest' s _ out (by intro p hp; rw [hcont rfl] at hp; cases hp) hprevS (by rw [hlnum]; exact hrest') (hacc.append hts) h
          | false =>
            simp only [Bool.false_eq_true, if_false] at h
            have hbs := hgo rfl rfl
            split at h
            · cases h
            · rename_i s2 acc2 hsc
              obtain ⟨hacc2, hb2⟩ := scanLine_b lines E P hP _ s s2 _ acc2 hbs (hacc.append hts) hsc
              obtain ⟨hk1, _⟩ := scanLine_keeps E P hP _ s _ s2 acc2 hbs.line.max hbs.line.pos hsc
              exact ih rest' s2 _ out hb2.progs (Or.inr ⟨hb2.line.one, hb2.line.cur⟩) (by rw [hk1, hlnum]; exact hrest') hacc2 h

end XV.Tz
