/-
  Soundness of the dead-alternative checker: with a valid witness, on a token list of the Python
  lexicon, nothing marked dead ever succeeds (induction on fuel over the mutually recursive interpreter).
-/
import XonshVerif.Model.PegDead
namespace XV.Peg

variable (L : Lexicon) (prog : Prog) (w : Array RTok) (W : DeadSet)

theorem leaf_dead (hw : PyLex L w) (test : RTok → Bool)
    (ht : ∀ t, (t.strId ∉ L.xonshStrs ∧ t.ty ∉ L.xonshTypes) → test t = false) (s : St) :
    (leaf w test s).1.isOk = false := by
  unfold leaf peekTok
  split
  · rename_i t s1 heq
    split at heq
    · rename_i t' ht'
      injection heq with h1 h2
      injection h1 with h1
      subst h1
      have hmem : t' ∈ w.toList := by
        have := Array.getElem?_eq_some_iff.mp ht'
        obtain ⟨hlt, hget⟩ := this
        rw [← hget]
        exact Array.getElem_mem_toList hlt
      simp [ht t' (hw t' hmem), Res.isOk]
    · injection heq with h1 _; cases h1
  · simp [Res.isOk]

end XV.Peg

namespace XV.Peg

/-- the certificate as a proposition -/
def CertOK (L : Lexicon) (prog : Prog) (W : DeadSet) : Prop :=
  ∀ id, W.contains id = true → ∃ r, prog[id]? = some r ∧ (r.deco = .none ∨ r.deco = .logger) ∧ deadBody L W r.body = true

theorem deadCert_sound (L : Lexicon) (prog : Prog) (W : DeadSet) (h : deadCert L prog W = true) : CertOK L prog W := by
  intro id hid
  unfold deadCert at h
  rw [List.all_eq_true] at h
  have hmem : id ∈ W := by simpa using hid
  have := h id hmem
  split at this
  · rename_i r hr
    simp only [Bool.and_eq_true, Bool.or_eq_true, beq_iff_eq] at this
    exact ⟨r, hr, this.1, this.2⟩
  · simp at this

structure DeadOK (L : Lexicon) (prog : Prog) (w : Array RTok) (W : DeadSet) (fuel : Nat) : Prop where
  prim : ∀ p s, deadPrim L W p = true → (execPrim prog w fuel p s).1.isOk = false
  rule : ∀ id s, W.contains id = true → (execRule prog w fuel id s).1.isOk = false
  body : ∀ rid b s, deadBody L W b = true → (execBody prog w fuel rid b s).1.isOk = false
  seqAlts : ∀ ps mark s, ps.all (deadPrim L W) = true → (execSeqAlts prog w fuel ps mark s).1.isOk = false
  alts : ∀ rid idx as mark s, as.all (deadAlt L W) = true → (execAlts prog w fuel rid idx as mark s).1.isOk = false
  items : ∀ its cut oks s, its.any (fun it => !it.opt && deadItem L W it.item) = true → (execItems prog w fuel its cut oks s).1 = false
  item : ∀ it s, deadItem L W it = true → (execItem prog w fuel it s).1.isOk = false
  rep : ∀ p mark n s, deadPrim L W p = true → (execRepeat prog w fuel p mark n s).1 = n

theorem deadOK_zero (L : Lexicon) (prog : Prog) (w : Array RTok) (W : DeadSet) : DeadOK L prog w W 0 := by
  constructor <;> intros <;> simp [execPrim, execRule, execBody, execSeqAlts, execAlts, execItems, execItem, execRepeat, Res.isOk]

end XV.Peg

namespace XV.Peg

theorem isOk_false_of_abort {r : Res} (h : r.isAbort = true) : r.isOk = false := by
  cases r <;> simp [Res.isAbort, Res.isOk] at *

theorem deadOK_succ (L : Lexicon) (prog : Prog) (w : Array RTok) (W : DeadSet)
    (hc : CertOK L prog W) (hw : PyLex L w) (fuel : Nat) (ih : DeadOK L prog w W fuel) :
    DeadOK L prog w W (fuel + 1) := by
  refine ⟨?prim, ?rule, ?body, ?seqAlts, ?alts, ?items, ?item, ?rep⟩
  case prim =>
    intro p s hp
    cases p with
    | rule id => simp only [execPrim]; exact ih.rule id s (by simpa [deadPrim] using hp)
    | expect sid =>
      simp only [execPrim]
      apply leaf_dead L w hw
      intro t ht
      simp only [deadPrim, List.contains_eq_mem, decide_eq_true_eq] at hp
      simp only [decide_eq_false_iff_not]
      intro heq; rw [heq] at ht; exact ht.1 hp
    | token ty =>
      simp only [execPrim]
      apply leaf_dead L w hw
      intro t ht
      simp only [deadPrim, List.contains_eq_mem, decide_eq_true_eq] at hp
      simp only [decide_eq_false_iff_not]
      intro heq; rw [heq] at ht; exact ht.2 hp
    | name => simp [deadPrim] at hp
    | keyword => simp [deadPrim] at hp
    | softKeyword => simp [deadPrim] at hp
    | anyToken => simp [deadPrim] at hp
  case rule =>
    intro id s hid
    obtain ⟨r, hr, hdeco, hbody⟩ := hc id hid
    simp only [execRule, hr]
    rcases hdeco with hd | hd <;> (rw [hd]; exact ih.body id r.body s hbody)
  case body =>
    intro rid b s hb
    cases b with
    | unmodelled => simp [deadBody] at hb
    | seqAlts ps => simp only [execBody]; exact ih.seqAlts ps s.pos s (by simpa [deadBody] using hb)
    | alts as wo usesLoc =>
      simp only [execBody]
      have hbs : as.all (deadAlt L W) = true := by simpa [deadBody] using hb
      split
      · simp [Res.isOk]
      · exact ih.alts _ _ as _ _ hbs
  case seqAlts =>
    intro ps mark s hps
    cases ps with
    | nil => simp [execSeqAlts, Res.isOk]
    | cons p ps =>
      simp only [List.all_cons, Bool.and_eq_true] at hps
      simp only [execSeqAlts]
      have h1 := ih.prim p s hps.1
      split
      · rename_i hab; exact isOk_false_of_abort hab
      · split
        · rename_i e heq; rw [heq] at h1; simp [Res.isOk] at h1
        · exact ih.seqAlts ps mark _ hps.2
  case alts =>
    intro rid idx as mark s has
    cases as with
    | nil => simp [execAlts, Res.isOk]
    | cons a as =>
      simp only [List.all_cons, Bool.and_eq_true] at has
      simp only [execAlts]
      have h1 := ih.items a.items false [] s (by simpa [deadAlt] using has.1)
      split
      · rename_i hab; exact isOk_false_of_abort hab
      · split
        · rename_i hok; rw [h1] at hok; simp at hok
        · split
          · simp [Res.isOk]
          · exact ih.alts _ _ as mark _ has.2
  case items =>
    intro its cut oks s hits
    cases its with
    | nil => simp at hits
    | cons it its =>
      simp only [List.any_cons, Bool.or_eq_true, Bool.and_eq_true, Bool.not_eq_true'] at hits
      simp only [execItems]
      split
      · -- setCut
        rename_i hset
        rcases hits with ⟨_, hd⟩ | hrest
        · rw [hset] at hd; simp [deadItem] at hd
        · exact ih.items its true _ s (by simpa using hrest)
      · rename_i hg
        split
        · rcases hits with ⟨_, hd⟩ | hrest
          · rw [hg] at hd; simp [deadItem] at hd
          · exact ih.items its cut _ s (by simpa using hrest)
        · rfl
      · rename_i item hns hng
        split
        · rfl
        · split
          · rename_i hab hcont
            rcases hits with ⟨hopt, hd⟩ | hrest
            · have := ih.item it.item s hd
              simp [this, hopt] at hcont
            · exact ih.items its cut _ _ (by simpa using hrest)
          · rfl
  case item =>
    intro it s hit
    cases it with
    | call p => simp only [execItem]; exact ih.prim p s (by simpa [deadItem] using hit)
    | seqAlts ps => simp only [execItem]; exact ih.seqAlts ps s.pos s (by simpa [deadItem] using hit)
    | repeated p =>
      simp only [execItem]
      have hrep := ih.rep p s.pos 0 s (by simpa [deadItem] using hit)
      split
      · rename_i hab; exact isOk_false_of_abort hab
      · simp [hrep, Res.isOk]
    | gathered elem sep =>
      simp only [execItem]
      have h1 := ih.seqAlts [elem] s.pos s (by simpa [deadItem] using hit)
      split
      · rename_i hab; exact isOk_false_of_abort hab
      · split
        · rename_i e heq; rw [heq] at h1; simp [Res.isOk] at h1
        · simp [Res.isOk]
    | posLook p =>
      simp only [execItem]
      have h1 := ih.prim p s (by simpa [deadItem] using hit)
      split
      · rename_i hab; exact isOk_false_of_abort hab
      · simp only [h1]
        simp [Res.isOk]
    | negLook p => simp [deadItem] at hit
    | forced p what => simp [deadItem] at hit
    | setCut => simp [deadItem] at hit
    | guardInvalid => simp [deadItem] at hit
  case rep =>
    intro p mark n s hp
    simp only [execRepeat]
    have h1 := ih.prim p s hp
    split
    · rfl
    · split
      · rename_i e heq; rw [heq] at h1; simp [Res.isOk] at h1
      · rfl

/-- **dead_never_succeeds.**  With a valid dead-rule witness, on a token list of the Python lexicon, no
    dead rule, dead alternative or dead item ever succeeds, for every fuel and every parser state. -/
theorem dead_never_succeeds (L : Lexicon) (prog : Prog) (w : Array RTok) (W : DeadSet)
    (hc : deadCert L prog W = true) (hw : PyLex L w) : ∀ fuel, DeadOK L prog w W fuel := by
  intro fuel
  induction fuel with
  | zero => exact deadOK_zero L prog w W
  | succ n ih => exact deadOK_succ L prog w W (deadCert_sound L prog W hc) hw n ih

end XV.Peg
