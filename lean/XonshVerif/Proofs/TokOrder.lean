/-
  C08 - tokens appear in non-decreasing, non-overlapping position order.

  An overlay on the tokenizer model: the chain of tokens emitted so far ends at a high-water mark `hw` which is never
  beyond the scan position, and a literal-accumulating prog on top of the mode stack (plain string, f-string literal part,
  format spec) starts at or after `hw` and at or before the scan position.  The stack shape used here is stricter than
  StringTiling's: plain strings and format specs are only ever on TOP of the stack, so whatever a pop reveals is a
  `{`-prog (which emits nothing) and whatever is restarted by `pop_mode(end)` starts at the scan position.
-/
import XonshVerif.Proofs.StringTiling
import XonshVerif.Proofs.RegexMinLen
set_option linter.unusedSimpArgs false
namespace XV.Tz
open XV XV.Rx

theorem Pos.le_def (a b : Pos) : a ≤ b ↔ a.line < b.line ∨ (a.line = b.line ∧ a.col ≤ b.col) := Iff.rfl
theorem Pos.le_refl' (a : Pos) : a ≤ a := by rw [Pos.le_def]; omega
theorem Pos.le_trans' {a b c : Pos} (h1 : a ≤ b) (h2 : b ≤ c) : a ≤ c := by rw [Pos.le_def] at *; omega
theorem Pos.le_same (l a b : Nat) (h : a ≤ b) : (⟨l, a⟩ : Pos) ≤ ⟨l, b⟩ := by rw [Pos.le_def]; simp; omega
theorem Pos.le_next (l a b : Nat) : (⟨l, a⟩ : Pos) ≤ ⟨l + 1, b⟩ := by rw [Pos.le_def]; simp

/-- the scan position as a coordinate -/
def cur (st : TState) : Pos := ⟨st.lnum, st.pos⟩

/-- `ts` is a chain: it starts at or after `lo`, every token ends at or after its start, the next one starts at or after
    that end, and the last one ends at or before `hi` -/
def Chain (lo : Pos) : List Tok5 → Pos → Prop
  | [], hi => lo ≤ hi
  | t :: ts, hi => lo ≤ t.start ∧ t.start ≤ t.stop ∧ Chain t.stop ts hi

theorem Chain.le {lo hi : Pos} {ts : List Tok5} (h : Chain lo ts hi) : lo ≤ hi := by
  induction ts generalizing lo with
  | nil => exact h
  | cons t ts ih => exact Pos.le_trans' h.1 (Pos.le_trans' h.2.1 (ih h.2.2))

theorem Chain.append {a b c : Pos} {xs ys : List Tok5} (h1 : Chain a xs b) (h2 : Chain b ys c) : Chain a (xs ++ ys) c := by
  induction xs generalizing a with
  | nil =>
    cases ys with
    | nil => exact Pos.le_trans' h1 h2
    | cons y ys => exact ⟨Pos.le_trans' h1 h2.1, h2.2.1, h2.2.2⟩
  | cons x xs ih => exact ⟨h1.1, h1.2.1, ih h1.2.2⟩

theorem Chain.lo_le {a a' b : Pos} {xs : List Tok5} (h : Chain a xs b) (ha : a' ≤ a) : Chain a' xs b := by
  cases xs with
  | nil => exact Pos.le_trans' ha h
  | cons x xs => exact ⟨Pos.le_trans' ha h.1, h.2.1, h.2.2⟩

theorem Chain.hi_le {a b b' : Pos} {xs : List Tok5} (h : Chain a xs b) (hb : b ≤ b') : Chain a xs b' :=
  Chain.append h (show Chain b [] b' from hb) |> fun x => by simpa using x

theorem Chain.single (lo : Pos) (t : Tok5) (h1 : lo ≤ t.start) (h2 : t.start ≤ t.stop) : Chain lo [t] t.stop :=
  ⟨h1, h2, Pos.le_refl' _⟩

theorem Chain.nil (a : Pos) : Chain a [] a := Pos.le_refl' a

theorem Chain.one (lo : Pos) (t : Tok5) (hi : Pos) (h1 : lo ≤ t.start) (h2 : t.start ≤ t.stop) (h3 : t.stop ≤ hi) : Chain lo [t] hi :=
  ⟨h1, h2, h3⟩

/-- a chain is pairwise ordered and every token is well oriented -/
theorem Chain.pairwise {lo hi : Pos} {ts : List Tok5} (h : Chain lo ts hi) :
    ts.Pairwise (fun a b => a.stop ≤ b.start) ∧ (∀ t ∈ ts, lo ≤ t.start ∧ t.start ≤ t.stop ∧ t.stop ≤ hi) := by
  induction ts generalizing lo with
  | nil => exact ⟨List.Pairwise.nil, by intro t ht; cases ht⟩
  | cons t ts ih =>
    obtain ⟨hp, hall⟩ := ih h.2.2
    refine ⟨List.Pairwise.cons ?_ hp, ?_⟩
    · intro b hb; exact (hall b hb).1
    · intro u hu
      rcases List.mem_cons.mp hu with rfl | hu
      · exact ⟨h.1, h.2.1, Chain.le h.2.2⟩
      · obtain ⟨a, b, c⟩ := hall u hu
        exact ⟨Pos.le_trans' h.1 (Pos.le_trans' h.2.1 a), b, c⟩


/-! ### the strict stack shape -/

def ProgOK (p : EndProg) : Prop :=
  kindOK p = true ∧ (isM p = true → p.pat = .fstr (strOfCps p.quote) ∧ ∃ tok, p.quote = quoteOf tok)

/-- top first: the bottom is a string or an f-string; on an f-string literal part only a `{`-prog; on a `{`-prog anything
    but a `{`-prog; nothing on a plain string or a format spec -/
def Shape : List EndProg → Prop
  | [] => True
  | [p] => ProgOK p ∧ (isM p = true ∨ isN p = true)
  | up :: lo :: rest => ProgOK up ∧ ((isM lo = true ∧ isB up = true) ∨ (isB lo = true ∧ isB up = false)) ∧ Shape (lo :: rest)

theorem Shape.tail {p : EndProg} {rest : List EndProg} (h : Shape (p :: rest)) : Shape rest := by
  cases rest with
  | nil => trivial
  | cons q more => exact h.2.2

theorem Shape.ok {p : EndProg} {rest : List EndProg} (h : Shape (p :: rest)) : ProgOK p := by
  cases rest with
  | nil => exact h.1
  | cons q more => exact h.1

theorem Shape.retop {p p' : EndProg} {rest : List EndProg} (hm : p'.mode = p.mode) (hp : p'.pat = p.pat) (hq : p'.quote = p.quote)
    (h : Shape (p :: rest)) : Shape (p' :: rest) := by
  have hok : ProgOK p → ProgOK p' := by
    intro ⟨a, b⟩
    refine ⟨by unfold kindOK at a ⊢; rw [hm, hp]; exact a, ?_⟩
    intro hM
    have : isM p = true := by unfold isM at hM ⊢; rw [← hm]; exact hM
    rw [hp, hq]; exact b this
  have hM : isM p' = isM p := by unfold isM; rw [hm]
  have hN : isN p' = isN p := by unfold isN; rw [hm]
  have hB : isB p' = isB p := by unfold isB; rw [hm]
  cases rest with
  | nil => exact ⟨hok h.1, by rw [hM, hN]; exact h.2⟩
  | cons q more => exact ⟨hok h.1, by rw [hB]; exact h.2.1, h.2.2⟩

/-- what lies under a prog that is not a `{`-prog is a `{`-prog -/
theorem Shape.below_notB {up lo : EndProg} {rest : List EndProg} (h : Shape (up :: lo :: rest)) (hu : isB up = false) : isB lo = true := by
  rcases h.2.1 with ⟨_, hb⟩ | ⟨hb, _⟩
  · rw [hu] at hb; cases hb
  · exact hb

/-- a `{`-prog always sits on an f-string literal part -/
theorem Shape.below_B {up : EndProg} {rest : List EndProg} (h : Shape (up :: rest)) (hu : isB up = true) :
    ∃ lo more, rest = lo :: more ∧ isM lo = true := by
  cases rest with
  | nil =>
    rcases h.2 with hM | hN
    · unfold isM at hM; unfold isB at hu; cases hm : up.mode <;> simp [hm] at hM hu
    · unfold isN at hN; unfold isB at hu; cases hm : up.mode <;> simp [hm] at hN hu
  | cons lo more =>
    rcases h.2.1 with ⟨hm, _⟩ | ⟨_, hb⟩
    · exact ⟨lo, more, rfl, hm⟩
    · rw [hu] at hb; cases hb

theorem Shape.push {up : EndProg} {stack : List EndProg} (hk : ProgOK up)
    (ha : match stack with | [] => (isM up = true ∨ isN up = true) | lo :: _ => ((isM lo = true ∧ isB up = true) ∨ (isB lo = true ∧ isB up = false)))
    (hv : Shape stack) : Shape (up :: stack) := by
  cases stack with
  | nil => exact ⟨hk, ha⟩
  | cons lo rest => exact ⟨hk, ha, hv⟩

/-- the order invariant, on the three components of the state it speaks about -/
structure OI (hw : Pos) (progs : List EndProg) (c : Pos) : Prop where
  shape : Shape progs
  hw_cur : hw ≤ c
  top : ∀ p rest, progs = p :: rest → isB p = true ∨ (hw ≤ p.start ∧ p.start ≤ c)

def OInv (hw : Pos) (st : TState) : Prop := OI hw st.endProgs (cur st)

/-- the top of the stack is a `{`-prog, or the stack is empty -/
def TopB (st : TState) : Prop := ∀ p rest, st.endProgs = p :: rest → isB p = true

/-- what the patterns must guarantee: the f-string scanners consume the brace / the closing quote they report -/
structure FstrLen (P : Pats) : Prop where
  lbrace : ∀ q, 1 ≤ minLen (lookupPat P.startLBrace q)
  rbrace : 1 ≤ minLen P.endRBrace
  endq : ∀ tok, (quoteOf tok).length ≤ minLen (lookupPat P.endpats (strOfCps (quoteOf tok)))

theorem matchBranches_minLen (E : Env) (fuel : Nat) (bs : Branches) (s : Array Nat) (pos : Nat) (name : String) (e : Nat)
    (h : matchBranches E fuel bs s pos = .inl (some (name, e))) : ∃ r, (name, r) ∈ bs ∧ pos + minLen r ≤ e := by
  obtain ⟨r, hr, hm⟩ := matchBranches_sound E fuel bs s pos name e h
  exact ⟨r, hr, matchAt_minLen E fuel r s pos e hm⟩

theorem emitMiddle_ord (st : TState) (me : Nat) (prog : EndProg) (rest : List EndProg) (hp : st.endProgs = prog :: rest)
    (hw : Pos) (h1 : hw ≤ prog.start) (h2 : prog.start ≤ cur st) (hme : st.pos ≤ me) :
    ∃ p', (emitMiddle st me prog).2.endProgs = p' :: rest ∧ p'.mode = prog.mode ∧ p'.pat = prog.pat ∧ p'.quote = prog.quote ∧
      (emitMiddle st me prog).2.lnum = st.lnum ∧ st.pos ≤ (emitMiddle st me prog).2.pos ∧ (emitMiddle st me prog).2.pos ≤ me ∧
      Chain hw (emitMiddle st me prog).1 (cur (emitMiddle st me prog).2) := by
  unfold emitMiddle
  split
  · unfold TState.progToken
    rw [hp]
    refine ⟨_, rfl, rfl, rfl, rfl, rfl, hme, Nat.le_refl _, ?_⟩
    refine ⟨h1, ?_, Pos.le_refl' _⟩
    simp only [cur] at h2 ⊢
    rw [Pos.le_def] at h2 ⊢
    simp only [] at h2 ⊢
    omega
  · exact ⟨prog, hp, rfl, rfl, rfl, rfl, Nat.le_refl _, hme, Pos.le_trans' h1 h2⟩


theorem isM_notB {p : EndProg} (h : isM p = true) : isB p = false := by
  unfold isM at h; unfold isB; cases hm : p.mode <;> simp [hm] at h ⊢
theorem isC_notB {p : EndProg} (h : isC p = true) : isB p = false := by
  unfold isC at h; unfold isB; cases hm : p.mode <;> simp [hm] at h ⊢
theorem isN_notB {p : EndProg} (h : isN p = true) : isB p = false := by
  unfold isN at h; unfold isB; cases hm : p.mode <;> simp [hm] at h ⊢

/-- what a named match of the f-string scanner tells about the prog on top and about the length of the match -/
theorem fstr_match_facts (P : Pats) (hF : FstrLen P) (prog : EndProg) (hok : ProgOK prog) (group : String) (r : Re)
    (hmem : (group, r) ∈ patBranches P prog.pat) (hne : group ≠ "") :
    (group = "End" ∧ isM prog = true ∧ prog.quote.length ≤ minLen r) ∨ (group = "LBrace" ∧ isM prog = true ∧ 1 ≤ minLen r) ∨
    (group = "RBrace" ∧ isC prog = true ∧ 1 ≤ minLen r) := by
  obtain ⟨hk, hq⟩ := hok
  cases hpat : prog.pat with
  | endpat q =>
    rw [hpat] at hmem
    simp only [patBranches, List.mem_singleton, Prod.mk.injEq] at hmem
    exact absurd hmem.1 hne
  | empty =>
    rw [hpat] at hmem
    simp only [patBranches, List.mem_singleton, Prod.mk.injEq] at hmem
    exact absurd hmem.1 hne
  | rbrace =>
    rw [hpat] at hmem
    simp only [patBranches, List.mem_singleton, Prod.mk.injEq] at hmem
    refine Or.inr (Or.inr ⟨hmem.1, ?_, by rw [hmem.2]; exact hF.rbrace⟩)
    unfold kindOK at hk; rw [hpat] at hk
    unfold isC
    cases hm : prog.mode <;> simp [hm] at hk ⊢
  | fstr q =>
    have hM : isM prog = true := by
      unfold kindOK at hk; rw [hpat] at hk
      unfold isM
      cases hm : prog.mode <;> simp [hm] at hk ⊢
    rw [hpat] at hmem
    simp only [patBranches, List.mem_cons, Prod.mk.injEq, List.not_mem_nil, or_false] at hmem
    rcases hmem with ⟨hg, hr⟩ | ⟨hg, hr⟩
    · exact Or.inr (Or.inl ⟨hg, hM, by rw [hr]; exact hF.lbrace q⟩)
    · obtain ⟨hp2, tok, htok⟩ := hq hM
      rw [hpat] at hp2
      injection hp2 with hp2
      refine Or.inl ⟨hg, hM, ?_⟩
      rw [hr, hp2, htok]
      exact hF.endq tok


theorem cur_le_col (st : TState) (e : Nat) (h : st.pos ≤ e) : cur st ≤ ⟨st.lnum, e⟩ := Pos.le_same _ _ _ h

/-- `handle_fstring_progs` keeps the order: either nothing happened, or it emitted a chain starting at the high-water
    mark and left the stack with a `{`-prog / nothing / a restarted literal part on top -/
theorem handleFstringProgs_ord (E : Env) (P : Pats) (hF : FstrLen P) (hw : Pos) (st st' : TState) (ts : List Tok5) (mt : Bool)
    (hI : OInv hw st) (h : handleFstringProgs E P st = .ok (ts, st', mt)) :
    (mt = false ∧ st' = st ∧ ts = []) ∨
    (mt = true ∧ ∃ hw', Chain hw ts hw' ∧ OInv hw' st' ∧ (TopB st' ∨ (st.pos < st'.pos ∧ st'.inMiddle = true))) := by
  unfold handleFstringProgs at h
  split at h
  · injection h with h; injection h with h1 h; injection h with h2 h3; subst h1; subst h2; subst h3
    exact Or.inl ⟨rfl, rfl, rfl⟩
  · rename_i prog rest hprogs
    split at h
    · cases h
    · injection h with h; injection h with h1 h; injection h with h2 h3; subst h1; subst h2; subst h3
      exact Or.inl ⟨rfl, rfl, rfl⟩
    · rename_i group e hm
      obtain ⟨r, hmem, hlen⟩ := matchBranches_minLen _ _ _ _ _ _ _ hm
      have hsh : Shape (prog :: rest) := hprogs ▸ hI.shape
      simp only [] at h
      split at h
      · injection h with h; injection h with h1 h; injection h with h2 h3; subst h1; subst h2; subst h3
        exact Or.inl ⟨rfl, rfl, rfl⟩
      · rename_i hne
        have hfacts := fstr_match_facts P hF prog hsh.ok group r hmem hne
        have htop := hI.top prog rest hprogs
        split at h
        · -- End: literal part, closing quote, pop
          rename_i hE
          injection h with h; injection h with h1 h; injection h with h2 h3; subst h1; subst h2; subst h3
          have ⟨hM, hql⟩ : isM prog = true ∧ prog.quote.length ≤ minLen r := by
            rcases hfacts with ⟨_, a, b⟩ | ⟨hg, _, _⟩ | ⟨hg, _, _⟩
            · exact ⟨a, b⟩
            · rw [hE] at hg; exact absurd hg (by decide)
            · rw [hE] at hg; exact absurd hg (by decide)
          rcases htop with hb | ⟨ht1, ht2⟩
          · rw [isM_notB hM] at hb; cases hb
          obtain ⟨p', hp', hm', hpat', hq', hln, hge, hle', hch⟩ :=
            emitMiddle_ord st (e - prog.quote.length) prog rest hprogs hw ht1 ht2 (by omega)
          refine Or.inr ⟨rfl, ⟨st.lnum, e⟩, ?_, ?_, Or.inl ?_⟩
          · refine Chain.append hch (Chain.one _ _ _ (Pos.le_refl' _) ?_ (by simp only []; rw [hln]; exact Pos.le_refl' _))
            simp only [cur]; rw [hln]; exact Pos.le_same _ _ _ (by omega)
          · have hend : ((emitMiddle st (e - prog.quote.length) prog).2.popMode none).endProgs = rest := popMode_endProgs_none _ p' rest hp'
            refine ⟨?_, ?_, ?_⟩
            · show Shape ((emitMiddle st (e - prog.quote.length) prog).2.popMode none).endProgs
              rw [hend]; exact hsh.tail
            · simp only [cur, popMode_lnum, hln]; exact Pos.le_refl' _
            · intro q more hq
              change ((emitMiddle st (e - prog.quote.length) prog).2.popMode none).endProgs = q :: more at hq
              rw [hend] at hq; subst hq
              exact Or.inl (hsh.below_notB (isM_notB hM))
          · intro q more hq
            change ((emitMiddle st (e - prog.quote.length) prog).2.popMode none).endProgs = q :: more at hq
            rw [popMode_endProgs_none _ p' rest hp'] at hq; subst hq
            exact hsh.below_notB (isM_notB hM)
        · rename_i hnE
          split at h
          · -- LBrace: a field opens
            rename_i hL
            injection h with h; injection h with h1 h; injection h with h2 h3; subst h1; subst h2; subst h3
            have ⟨hM, hql⟩ : isM prog = true ∧ 1 ≤ minLen r := by
              rcases hfacts with ⟨hg, _, _⟩ | ⟨_, a, b⟩ | ⟨hg, _, _⟩
              · exact absurd hg hnE
              · exact ⟨a, b⟩
              · rw [hL] at hg; exact absurd hg (by decide)
            rcases htop with hb | ⟨ht1, ht2⟩
            · rw [isM_notB hM] at hb; cases hb
            obtain ⟨p', hp', hm', hpat', hq', hln, hge, hle', hch⟩ :=
              emitMiddle_ord st (e - 1) prog rest hprogs hw ht1 ht2 (by omega)
            have hM' : isM p' = true := by unfold isM at hM ⊢; rw [hm']; exact hM
            refine Or.inr ⟨rfl, ⟨st.lnum, e⟩, ?_, ?_, Or.inl ?_⟩
            · refine Chain.append hch (Chain.one _ _ _ (Pos.le_refl' _) ?_ (by simp only []; rw [hln]; exact Pos.le_refl' _))
              simp only [cur]; rw [hln]; exact Pos.le_same _ _ _ (by omega)
            · refine ⟨?_, ?_, ?_⟩
              · show Shape (_ :: (emitMiddle st (e - 1) prog).2.endProgs)
                rw [hp']
                exact Shape.push ⟨rfl, by intro hc; cases hc⟩ (Or.inl ⟨hM', rfl⟩) (Shape.retop hm' hpat' hq' hsh)
              · simp only [cur, TState.addProg, hln]; exact Pos.le_refl' _
              · intro q more hq
                simp only [TState.addProg, List.cons.injEq] at hq
                obtain ⟨hq1, _⟩ := hq
                subst hq1
                exact Or.inl rfl
            · intro q more hq
              simp only [TState.addProg, List.cons.injEq] at hq
              obtain ⟨hq1, _⟩ := hq
              subst hq1
              rfl
          · -- RBrace: the format spec and its field close, the literal part below restarts here
            rename_i hnL
            injection h with h; injection h with h1 h; injection h with h2 h3; subst h1; subst h2; subst h3
            have ⟨hC, hql⟩ : isC prog = true ∧ 1 ≤ minLen r := by
              rcases hfacts with ⟨hg, _, _⟩ | ⟨hg, _, _⟩ | ⟨_, a, b⟩
              · exact absurd hg hnE
              · exact absurd hg hnL
              · exact ⟨a, b⟩
            rcases htop with hb | ⟨ht1, ht2⟩
            · rw [isC_notB hC] at hb; cases hb
            obtain ⟨p', hp', hm', hpat', hq', hln, hge, hle', hch⟩ :=
              emitMiddle_ord st (e - 1) prog rest hprogs hw ht1 ht2 (by omega)
            -- the stack below the spec: a `{`-prog on a literal part
            cases rest with
            | nil =>
              rcases hsh.2 with hM | hN
              · unfold isM at hM; unfold isC at hC; cases hmm : prog.mode <;> simp [hmm] at hM hC
              · unfold isN at hN; unfold isC at hC; cases hmm : prog.mode <;> simp [hmm] at hN hC
            | cons b rest2 =>
              have hB : isB b = true := hsh.below_notB (isC_notB hC)
              obtain ⟨m, rest3, hr2, hMm⟩ := (hsh.tail).below_B hB
              subst hr2
              have e1 : (({ (emitMiddle st (e - 1) prog).2 with parenlev := (emitMiddle st (e - 1) prog).2.parenlev - 1 } : TState).popMode none).endProgs = b :: m :: rest3 :=
                popMode_endProgs_none _ p' _ hp'
              have e2 := popMode_endProgs_some (({ (emitMiddle st (e - 1) prog).2 with parenlev := (emitMiddle st (e - 1) prog).2.parenlev - 1 } : TState).popMode none) b (m :: rest3)
                ⟨(emitMiddle st (e - 1) prog).2.lnum, e⟩ e1
              simp only [] at e2
              refine Or.inr ⟨rfl, ⟨st.lnum, e⟩, ?_, ?_, Or.inr ⟨?_, ?_⟩⟩
              · refine Chain.append hch (Chain.one _ _ _ (Pos.le_refl' _) ?_ (by simp only []; rw [hln]; exact Pos.le_refl' _))
                simp only [cur]; rw [hln]; exact Pos.le_same _ _ _ (by omega)
              · refine ⟨?_, ?_, ?_⟩
                · show Shape (TState.popMode _ _).endProgs
                  rw [e2]
                  exact Shape.retop (p := m) rfl rfl rfl hsh.tail.tail
                · simp only [cur, popMode_lnum, hln]; exact Pos.le_refl' _
                · intro q more hq
                  change (TState.popMode _ _).endProgs = q :: more at hq
                  rw [e2] at hq
                  simp only [List.cons.injEq] at hq
                  obtain ⟨hq1, _⟩ := hq
                  subst hq1
                  right
                  simp only [cur, popMode_lnum, hln]
                  exact ⟨Pos.le_refl' _, Pos.le_refl' _⟩
              · show st.pos < e
                omega
              · show TState.inMiddle _ = true
                unfold TState.inMiddle
                simp only []
                rw [e2]
                simp only []
                unfold isM at hMm
                cases hmm : m.mode <;> simp [hmm] at hMm ⊢


theorem inMiddle_eq (st : TState) (p : EndProg) (rest : List EndProg) (hp : st.endProgs = p :: rest) : st.inMiddle = isM p := by
  unfold TState.inMiddle isM; rw [hp]; simp only []; cases p.mode <;> rfl
theorem inBraces_eq (st : TState) (p : EndProg) (rest : List EndProg) (hp : st.endProgs = p :: rest) : st.inBraces = isB p := by
  unfold TState.inBraces isB; rw [hp]; simp only []; cases p.mode <;> rfl
theorem inColon_eq (st : TState) (p : EndProg) (rest : List EndProg) (hp : st.endProgs = p :: rest) : st.inColon = isC p := by
  unfold TState.inColon isC; rw [hp]; simp only []; cases p.mode <;> rfl

theorem kind_cases (p : EndProg) : isN p = true ∨ isM p = true ∨ isB p = true ∨ isC p = true := by
  unfold isN isM isB isC; cases p.mode <;> simp

/-- what `handle_end_progs` leaves behind: a `{`-prog or nothing on top, or the rest of the line swallowed, or a literal
    part restarted further right -/
def EndPost (st st' : TState) : Prop := TopB st' ∨ st'.pos = st'.max ∨ (st.pos < st'.pos ∧ st'.inMiddle = true)

theorem endProgStep_ord (E : Env) (P : Pats) (hF : FstrLen P) (hw : Pos) (st st' : TState) (prog : EndProg) (rest : List EndProg)
    (ts : List Tok5) (mt early : Bool) (hp : st.endProgs = prog :: rest) (hnb : st.inBraces = false) (hI : OInv hw st)
    (h : endProgStep E P st prog = .ok (ts, st', mt, early)) :
    (mt = false ∧ early = false ∧ st' = st ∧ ts = []) ∨
    (mt = true ∧ ∃ hw', Chain hw ts hw' ∧ OInv hw' st' ∧ (TopB st' ∨ (st.pos < st'.pos ∧ st'.inMiddle = true))) := by
  unfold endProgStep at h
  split at h
  · split at h
    · cases h
    · rename_i ts0 s0 m0 hf
      injection h with h; injection h with h1 h; injection h with h2 h; injection h with h3 h4; subst h1; subst h2; subst h3; subst h4
      rcases handleFstringProgs_ord E P hF hw st _ _ _ hI hf with ⟨a, b, c⟩ | hr
      · exact Or.inl ⟨a, rfl, b, c⟩
      · exact Or.inr hr
  · rename_i hnmc
    split at h
    · cases h
    · rename_i nm e hm
      injection h with h; injection h with h1 h; injection h with h2 h; injection h with h3 h4; subst h1; subst h2; subst h3; subst h4
      have hge := matchBranches_ge _ _ _ _ _ _ _ hm
      have hN : isN prog = true := by
        rw [inBraces_eq st prog rest hp] at hnb
        rw [inMiddle_eq st prog rest hp, inColon_eq st prog rest hp] at hnmc
        rcases kind_cases prog with h | h | h | h
        · exact h
        · simp [h] at hnmc
        · rw [h] at hnb; cases hnb
        · simp [h] at hnmc
      have hsh : Shape (prog :: rest) := hp ▸ hI.shape
      rcases hI.top prog rest hp with hb | ⟨ht1, ht2⟩
      · rw [isN_notB hN] at hb; cases hb
      have hend : ((st.progToken e .STRING).2.popMode none).endProgs = rest := by
        apply popMode_endProgs_none _ { prog with text := prog.text ++ slice st.line st.pos e } rest
        unfold TState.progToken; rw [hp]
      have htok : (st.progToken e .STRING).1.start = prog.start ∧ (st.progToken e .STRING).1.stop = ⟨st.lnum, e⟩ := by
        unfold TState.progToken; rw [hp]; exact ⟨rfl, rfl⟩
      have hpos : (st.progToken e .STRING).2.pos = e ∧ (st.progToken e .STRING).2.lnum = st.lnum := by
        unfold TState.progToken; rw [hp]; exact ⟨rfl, rfl⟩
      have hrev : ∀ q more, rest = q :: more → isB q = true := by
        intro q more hq; subst hq; exact hsh.below_notB (isN_notB hN)
      refine Or.inr ⟨rfl, ⟨st.lnum, e⟩, ?_, ?_, Or.inl ?_⟩
      · refine Chain.one _ _ _ (by rw [htok.1]; exact ht1) ?_ (by rw [htok.2]; exact Pos.le_refl' _)
        rw [htok.1, htok.2]
        exact Pos.le_trans' ht2 (cur_le_col st e hge)
      · refine ⟨?_, ?_, ?_⟩
        · rw [hend]; exact hsh.tail
        · simp only [cur, popMode_lnum, popMode_pos, hpos.1, hpos.2]; exact Pos.le_refl' _
        · intro q more hq
          rw [hend] at hq
          exact Or.inl (hrev q more hq)
      · intro q more hq
        rw [hend] at hq
        exact hrev q more hq
    · injection h with h; injection h with h1 h; injection h with h2 h; injection h with h3 h4; subst h1; subst h2; subst h3; subst h4
      exact Or.inl ⟨rfl, rfl, rfl, rfl⟩

theorem endProgFinish_ord (hw : Pos) (st : TState) (ts ts' : List Tok5) (s s' : TState) (matched early : Bool)
    (hI : OInv hw s) (hle0 : matched = false → s.pos ≤ s.max)
    (hpost : (matched = false ∧ early = false) ∨ (matched = true ∧ (TopB s ∨ (st.pos < s.pos ∧ s.inMiddle = true))))
    (h : endProgFinish ts s matched early = .ok (ts', s')) :
    ts' = ts ∧ OInv hw s' ∧ (TopB s' ∨ s'.pos = s'.max ∨ (st.pos < s'.pos ∧ s'.inMiddle = true)) := by
  have hmatched : matched = true → (TopB s ∨ s.pos = s.max ∨ (st.pos < s.pos ∧ s.inMiddle = true)) := by
    intro hm
    rcases hpost with ⟨a, _⟩ | ⟨_, b⟩
    · rw [hm] at a; cases a
    · rcases b with b | b
      · exact Or.inl b
      · exact Or.inr (Or.inr b)
  unfold endProgFinish at h
  split at h
  · rename_i he
    injection h with h; injection h with h1 h2; subst h1; subst h2
    rcases hpost with ⟨_, b⟩ | ⟨a, _⟩
    · rw [he] at b; cases b
    · exact ⟨rfl, hI, hmatched a⟩
  · split at h
    · rename_i hbe
      injection h with h; injection h with h1 h2; subst h1; subst h2
      refine ⟨rfl, hI, Or.inl ?_⟩
      intro q more hq
      rw [inBraces_eq s q more hq] at hbe
      simpa [hq] using hbe
    · split at h
      · rename_i hm
        injection h with h; injection h with h1 h2; subst h1; subst h2
        exact ⟨rfl, hI, hmatched hm⟩
      · rename_i hnm
        have hle : s.pos ≤ s.max := hle0 (by simpa using hnm)
        split at h
        · split at h
          · injection h with h; injection h with h1 h2; subst h1; subst h2
            exact ⟨rfl, hI, Or.inl (by intro q more hq; rename_i hnil; rw [hnil] at hq; cases hq)⟩
          · rename_i p rest hp
            injection h with h; injection h with h1 h2; subst h1; subst h2
            refine ⟨rfl, ⟨?_, ?_, ?_⟩, Or.inr (Or.inl rfl)⟩
            · exact Shape.retop (p := p) rfl rfl rfl (hp ▸ hI.shape)
            · exact Pos.le_trans' hI.hw_cur (cur_le_col s s.max hle)
            · intro q more hq
              simp only [List.cons.injEq] at hq
              obtain ⟨hq1, _⟩ := hq
              subst hq1
              rcases hI.top p rest hp with hb | ⟨a, b⟩
              · exact Or.inl hb
              · exact Or.inr ⟨a, Pos.le_trans' b (cur_le_col s s.max hle)⟩
        · split at h
          · cases h
          · injection h with h; injection h with h1 h2; subst h1; subst h2
            exfalso
            cases matched <;> simp_all


theorem handleEndProgs_ord (E : Env) (P : Pats) (hF : FstrLen P) (hw : Pos) (st st' : TState) (ts : List Tok5)
    (hle : st.pos ≤ st.max) (hI : OInv hw st) (h : handleEndProgs E P st = .ok (ts, st')) :
    ∃ hw', Chain hw ts hw' ∧ OInv hw' st' ∧ EndPost st st' := by
  unfold handleEndProgs at h
  split at h
  · rename_i hnil
    injection h with h; injection h with h1 h2; subst h1; subst h2
    exact ⟨hw, Chain.nil _, hI, Or.inl (by intro q more hq; rw [hnil] at hq; cases hq)⟩
  · rename_i prog rest hp
    split at h
    · cases h
    · split at h
      · rename_i hb
        injection h with h; injection h with h1 h2; subst h1; subst h2
        refine ⟨hw, Chain.nil _, hI, Or.inl ?_⟩
        intro q more hq
        rw [inBraces_eq st q more hq] at hb
        exact hb
      · rename_i hnb
        split at h
        · cases h
        · rename_i ts1 s1 m1 e1 hstep
          rcases endProgStep_ord E P hF hw st s1 prog rest ts1 m1 e1 hp (by simpa using hnb) hI hstep with ⟨a, b, c, d⟩ | ⟨a, hw', hch, hI', hpost⟩
          · rw [a, b, c, d] at h
            obtain ⟨x, y, z⟩ := endProgFinish_ord hw st [] ts st st' false false hI (fun _ => hle) (Or.inl ⟨rfl, rfl⟩) h
            exact ⟨hw, by rw [x]; exact Chain.nil _, y, z⟩
          · rw [a] at h
            obtain ⟨x, y, z⟩ := endProgFinish_ord hw' st ts1 ts s1 st' true e1 hI' (fun hc => by cases hc) (Or.inr ⟨rfl, hpost⟩) h
            exact ⟨hw', by rw [x]; exact hch, y, z⟩


theorem OInv.same {hw : Pos} {st s : TState} (hsh : Shape st.endProgs) (hB : TopB st) (h1 : s.endProgs = st.endProgs)
    (hc : hw ≤ cur s) : OInv hw s := by
  refine ⟨by rw [h1]; exact hsh, hc, ?_⟩
  intro p rest hp; rw [h1] at hp; exact Or.inl (hB p rest hp)

theorem slice_len (a : Array Nat) (i j : Nat) (hj : j ≤ a.size) : (slice a i j).length = j - i := by
  unfold slice; simp; omega

/-- the operator branch: bracket bookkeeping keeps the order invariant at the end of the operator -/
theorem specialAction_ord (st : TState) (start e : Nat) (hsh : Shape st.endProgs) (hB : TopB st) (hpos : st.pos = e)
    (hsz : e ≤ st.line.size) : OInv ⟨st.lnum, e⟩ (specialAction st start e) := by
  have hcur : ∀ s : TState, s.lnum = st.lnum → s.pos = st.pos → (⟨st.lnum, e⟩ : Pos) ≤ cur s := by
    intro s h2 h3; simp only [cur, h2, h3, hpos]; exact Pos.le_refl' _
  unfold specialAction
  split
  · exact OInv.same hsh hB rfl (hcur _ rfl rfl)
  · split
    · by_cases hc : (st.inBraces && st.atParenlev) = true
      · simp only [hc, if_true]
        simp only [Bool.and_eq_true] at hc
        cases hst : st.endProgs with
        | nil => have := hc.1; unfold TState.inBraces at this; rw [hst] at this; cases this
        | cons b rest =>
          have hbB : isB b = true := hB b rest hst
          obtain ⟨m, more, hr, hM⟩ := (hst ▸ hsh : Shape (b :: rest)).below_B hbB
          subst hr
          have e2 := popMode_endProgs_some st b (m :: more) ⟨st.lnum, e⟩ hst
          simp only [] at e2
          refine ⟨?_, ?_, ?_⟩
          · show Shape (st.popMode _).endProgs
            rw [e2]
            exact Shape.retop (p := m) rfl rfl rfl (hst ▸ hsh : Shape (b :: m :: more)).tail
          · show (⟨st.lnum, e⟩ : Pos) ≤ ⟨(st.popMode _).lnum, (st.popMode _).pos⟩
            simp only [popMode_lnum, popMode_pos, hpos]; exact Pos.le_refl' _
          · intro q more' hq
            change (st.popMode _).endProgs = q :: more' at hq
            rw [e2] at hq
            simp only [List.cons.injEq] at hq
            obtain ⟨hq1, _⟩ := hq
            subst hq1
            right
            show (⟨st.lnum, e⟩ : Pos) ≤ ⟨st.lnum, e⟩ ∧ (⟨st.lnum, e⟩ : Pos) ≤ ⟨(st.popMode _).lnum, (st.popMode _).pos⟩
            simp only [popMode_lnum, popMode_pos, hpos]
            exact ⟨Pos.le_refl' _, Pos.le_refl' _⟩
      · simp only [hc, if_false, Bool.false_eq_true]
        exact OInv.same hsh hB rfl (hcur _ rfl rfl)
    · split
      · rename_i hcol
        simp only [Bool.and_eq_true, decide_eq_true_eq] at hcol
        obtain ⟨⟨hs, hib⟩, _⟩ := hcol
        have hlen := slice_len st.line start e hsz
        rw [hs] at hlen
        simp only [List.length_singleton] at hlen
        cases hst : st.endProgs with
        | nil => unfold TState.inBraces at hib; rw [hst] at hib; cases hib
        | cons b rest =>
          have hbB : isB b = true := hB b rest hst
          refine ⟨?_, ?_, ?_⟩
          · show Shape (_ :: st.endProgs)
            rw [hst]
            exact Shape.push ⟨rfl, by intro hc; cases hc⟩ (Or.inr ⟨hbB, rfl⟩) (hst ▸ hsh)
          · exact hcur _ rfl rfl
          · intro q more hq
            simp only [TState.addProg, List.cons.injEq] at hq
            obtain ⟨hq1, _⟩ := hq
            subst hq1
            right
            simp only [cur, TState.addProg, hpos]
            exact ⟨Pos.le_same _ _ _ (by omega), Pos.le_same _ _ _ (by omega)⟩
      · exact OInv.same hsh hB rfl (hcur _ rfl rfl)


set_option hygiene false in
macro "tok_ok" : tactic => `(tactic| (injection h with h; injection h with h1 h2; subst h1; subst h2; exact tokcase _))

/-- what `next_psuedo_matches` does with a match over `[start, e)`: the token (if any) continues the chain and the
    invariant holds at `e` -/
theorem pseudoAction_ord (hw : Pos) (st st' : TState) (group : String) (start e : Nat) (tok : Option Tok5)
    (hI : OI hw st.endProgs ⟨st.lnum, start⟩) (hB : TopB st) (hse : start ≤ e) (hpos : st.pos = e) (hsz : e ≤ st.line.size)
    (h : pseudoAction st group start e = .ok (tok, st')) :
    ∃ hw', Chain hw tok.toList hw' ∧ OInv hw' st' := by
  have hcur : (⟨st.lnum, e⟩ : Pos) ≤ cur st := by simp only [cur, hpos]; exact Pos.le_refl' _
  have hch : ∀ ty, Chain hw [mkTok st start e ty] ⟨st.lnum, e⟩ := fun ty =>
    Chain.one _ _ _ hI.hw_cur (Pos.le_same _ _ _ hse) (Pos.le_refl' _)
  have tokcase : ∀ ty, ∃ hw', Chain hw (some (mkTok st start e ty)).toList hw' ∧ OInv hw' st := fun ty =>
    ⟨⟨st.lnum, e⟩, hch ty, OInv.same hI.shape hB rfl hcur⟩
  unfold pseudoAction at h
  split at h
  · split at h
    · -- an f-string opens
      injection h with h; injection h with h1 h2; subst h1; subst h2
      refine ⟨⟨st.lnum, e⟩, hch _, ?_, hcur, ?_⟩
      · show Shape (_ :: st.endProgs)
        refine Shape.push ⟨rfl, fun _ => ⟨rfl, _, rfl⟩⟩ ?_ hI.shape
        cases hst : st.endProgs with
        | nil => exact Or.inl rfl
        | cons lo more => exact Or.inr ⟨hB lo more hst, rfl⟩
      · intro q more hq
        simp only [TState.addProg, List.cons.injEq] at hq
        obtain ⟨hq1, _⟩ := hq
        subst hq1
        right
        simp only [cur, TState.addProg, hpos]
        exact ⟨Pos.le_refl' _, Pos.le_refl' _⟩
    · -- a plain string opens: no token yet
      injection h with h; injection h with h1 h2; subst h1; subst h2
      refine ⟨hw, Chain.nil _, ?_, Pos.le_trans' hI.hw_cur (by simp only [cur, TState.addProg, hpos]; exact Pos.le_same _ _ _ hse), ?_⟩
      · show Shape (_ :: st.endProgs)
        refine Shape.push ⟨rfl, fun hc => by cases hc⟩ ?_ hI.shape
        cases hst : st.endProgs with
        | nil => exact Or.inr rfl
        | cons lo more => exact Or.inr ⟨hB lo more hst, rfl⟩
      · intro q more hq
        simp only [TState.addProg, List.cons.injEq] at hq
        obtain ⟨hq1, _⟩ := hq
        subst hq1
        right
        simp only [cur, TState.addProg, hpos]
        exact ⟨hI.hw_cur, Pos.le_same _ _ _ hse⟩
  · split at h
    · tok_ok
    · split at h
      · tok_ok
      · split at h
        · tok_ok
        · split at h
          · tok_ok
          · split at h
            · tok_ok
            · split at h
              · tok_ok
              · split at h
                · injection h with h; injection h with h1 h2; subst h1; subst h2
                  exact ⟨⟨st.lnum, e⟩, hch _, specialAction_ord st start e hI.shape hB hpos hsz⟩
                · split at h
                  · injection h with h; injection h with h1 h2; subst h1; subst h2
                    exact ⟨hw, Chain.nil _, OInv.same hI.shape hB rfl
                      (Pos.le_trans' hI.hw_cur (by simp only [cur, hpos]; exact Pos.le_same _ _ _ hse))⟩
                  · cases h


set_option hygiene false in
macro "stk_some" : tactic => `(tactic| (injection h with h; injection h with h1 h2; cases h1))

/-- when no token comes back, either a string opened or the stack is as before -/
theorem pseudoAction_none_stack (st st' : TState) (group : String) (start e : Nat)
    (h : pseudoAction st group start e = .ok (none, st')) : group = "StringStart" ∨ st'.endProgs = st.endProgs := by
  unfold pseudoAction at h
  split at h
  · rename_i hg; exact Or.inl hg
  · split at h
    · stk_some
    · split at h
      · stk_some
      · split at h
        · stk_some
        · split at h
          · stk_some
          · split at h
            · stk_some
            · split at h
              · stk_some
              · split at h
                · stk_some
                · split at h
                  · injection h with h; injection h with h1 h2; subst h2; exact Or.inr rfl
                  · cases h

theorem nextPseudoMatches_ord (E : Env) (P : Pats) (hP : PseudoProgress P) (hw : Pos) (st st' : TState) (tok : Option Tok5)
    (hmax : st.max = st.line.size) (hle : st.pos ≤ st.max)
    (hI : OInv hw st) (hpre : TopB st ∨ st.pos = st.max ∨ st.inMiddle = true)
    (h : nextPseudoMatches E P st = .ok (tok, st')) :
    ∃ hw', Chain hw tok.toList hw' ∧ OInv hw' st' ∧ (tok = none → st'.pos = st.pos → st'.endProgs = st.endProgs) := by
  unfold nextPseudoMatches at h
  split at h
  · injection h with h; injection h with h1 h2; subst h1; subst h2
    exact ⟨hw, Chain.nil _, hI, fun _ _ => rfl⟩
  · rename_i hno
    simp only [Bool.or_eq_true, decide_eq_true_eq, not_or] at hno
    have hB : TopB st := by
      rcases hpre with h | h | h
      · exact h
      · exact absurd h hno.1
      · exact absurd h hno.2
    split at h
    · cases h
    · injection h with h; injection h with h1 h2; subst h1; subst h2
      exact ⟨hw, Chain.nil _, hI, fun _ _ => rfl⟩
    · rename_i group e hm
      have hge := matchBranches_ge _ _ _ _ _ _ _ hm
      have hbd : e ≤ st.line.size := matchBranches_le _ _ _ _ _ _ _ (by rw [← hmax]; exact hle) hm
      obtain ⟨hw', a, b⟩ := pseudoAction_ord hw { st with pos := e } st' group st.pos e tok
        ⟨hI.shape, hI.hw_cur, hI.top⟩ hB hge rfl hbd h
      refine ⟨hw', a, b, ?_⟩
      intro htok hpos
      subst htok
      obtain ⟨_, _, _, f4⟩ := pseudoAction_frame _ _ _ _ _ _ h
      simp only [] at f4
      rcases pseudoAction_none_stack _ _ _ _ _ h with hg | hs
      · have := matchBranches_gt E _ P hP _ _ _ _ (by rw [hg]; decide) hm
        omega
      · exact hs


/-- the scan loop of one line extends the chain -/
theorem scanLine_ord (E : Env) (P : Pats) (hP : PseudoProgress P) (hF : FstrLen P) :
    ∀ (fuel : Nat) (hw lo : Pos) (st st' : TState) (acc acc' : List Tok5),
      st.max = st.line.size → st.pos ≤ st.max → OInv hw st → Chain lo acc hw →
      scanLine E P fuel st acc = .ok (st', acc') →
      ∃ hw', Chain lo acc' hw' ∧ OInv hw' st' ∧ st'.max = st'.line.size ∧ st'.pos ≤ st'.max := by
  intro fuel
  induction fuel with
  | zero => intro hw lo st st' acc acc' _ _ _ _ h; simp [scanLine] at h
  | succ fuel ih =>
    intro hw lo st st' acc acc' hmax hle hI hacc h
    unfold scanLine at h
    split at h
    · rename_i hlt
      split at h
      · cases h
      · rename_i ts1 st1 h1
        obtain ⟨a1, b1⟩ := handleEndProgs_adv E P st st1 ts1 hmax hle h1
        have hmax1 : st1.max = st1.line.size := by rw [a1.max, a1.line]; exact hmax
        obtain ⟨hw1, c1, i1, post1⟩ := handleEndProgs_ord E P hF hw st st1 ts1 hle hI h1
        have hpre : TopB st1 ∨ st1.pos = st1.max ∨ st1.inMiddle = true := by
          rcases post1 with x | x | x
          · exact Or.inl x
          · exact Or.inr (Or.inl x)
          · exact Or.inr (Or.inr x.2)
        split at h
        · cases h
        · rename_i t st2 h2
          obtain ⟨a2, b2, _⟩ := nextPseudo_adv E P hP st1 st2 (some t) hmax1 b1 h2
          obtain ⟨hw2, c2, i2, _⟩ := nextPseudoMatches_ord E P hP hw1 st1 st2 (some t) hmax1 b1 i1 hpre h2
          exact ih hw2 lo st2 st' _ acc' (by rw [a2.max, a2.line]; exact hmax1) b2 i2
            (Chain.append (Chain.append hacc c1) c2) h
        · rename_i st2 h2
          obtain ⟨a2, b2, _⟩ := nextPseudo_adv E P hP st1 st2 none hmax1 b1 h2
          obtain ⟨hw2, c2, i2, s2⟩ := nextPseudoMatches_ord E P hP hw1 st1 st2 none hmax1 b1 i1 hpre h2
          have hmax2 : st2.max = st2.line.size := by rw [a2.max, a2.line]; exact hmax1
          have hacc2 : Chain lo (acc ++ ts1) hw2 := by
            have := Chain.append (Chain.append hacc c1) c2
            simpa using this
          simp only [] at h
          split at h
          · rename_i heq
            have hp1 : st1.pos = st.pos := by have := a1.ge; have := a2.ge; omega
            have hB1 : TopB st1 := by
              rcases post1 with x | x | x
              · exact x
              · have := a1.max; omega
              · omega
            have hB2 : TopB st2 := by
              intro q more hq
              rw [s2 rfl (by omega)] at hq
              exact hB1 q more hq
            refine ih ⟨st2.lnum, st2.pos + 1⟩ lo { st2 with pos := st2.pos + 1 } st' _ acc' hmax2 (by show st2.pos + 1 ≤ st2.max; have := a1.max; have := a2.max; omega) ?_ ?_ h
            · exact OInv.same i2.shape hB2 rfl (Pos.le_refl' _)
            · refine Chain.append hacc2 (Chain.one _ _ _ i2.hw_cur (Pos.le_same _ _ _ (by omega)) (Pos.le_refl' _))
          · exact ih hw2 lo st2 st' _ acc' hmax2 b2 i2 hacc2 h
    · injection h with h; injection h with h1 h2; subst h1; subst h2
      exact ⟨hw, hacc, hI, hmax, hle⟩


theorem dedents_ord (col lnum pos : Nat) (line : List Nat) (lo : Pos) : ∀ (fuel : Nat) (ind : List Nat) (acc : List Tok5) (ind' : List Nat) (acc' : List Tok5),
    Chain lo acc ⟨lnum, pos⟩ → dedents col lnum pos line fuel ind acc = .ok (ind', acc') → Chain lo acc' ⟨lnum, pos⟩ := by
  intro fuel
  induction fuel with
  | zero => intro ind acc ind' acc' hc h; simp only [dedents] at h; injection h with h; injection h with h1 h2; subst h2; exact hc
  | succ fuel ih =>
    intro ind acc ind' acc' hc h
    simp only [dedents] at h
    split at h
    · injection h with h; injection h with h1 h2; subst h2; exact hc
    · split at h
      · split at h
        · cases h
        · exact ih _ _ _ _ (Chain.append hc (Chain.one _ _ _ (Pos.le_refl' _) (Pos.le_refl' _) (Pos.le_refl' _))) h
      · injection h with h; injection h with h1 h2; subst h2; exact hc

theorem rstripNewlines_len (l : List Nat) : (rstripNewlines l).length ≤ l.length := by
  unfold rstripNewlines
  rw [List.length_reverse]
  have := (List.dropWhile_sublist (fun c => decide (c = 13) || decide (c = 10)) (l := l.reverse)).length_le
  rw [List.length_reverse] at this
  exact this

/-- `next_statement` at the start of a line, with an empty mode stack -/
theorem nextStatement_ord (P : Pats) (hw : Pos) (st st' : TState) (ts : List Tok5) (a : StmtAction)
    (hmax : st.max = st.line.size) (hhw : hw ≤ ⟨st.lnum, 0⟩)
    (h : nextStatement P st = .ok (ts, st', a)) :
    st'.endProgs = st.endProgs ∧ st'.lnum = st.lnum ∧
    ∃ hw', Chain hw ts hw' ∧ (a = .proceed → hw' ≤ cur st') ∧ (a = .continueLoop → hw' ≤ ⟨st.lnum, st.max⟩) ∧
      (a = .breakLoop → ts = []) := by
  unfold nextStatement at h
  split at h
  · injection h with h; injection h with h1 h; injection h with h2 h3; subst h1; subst h2; subst h3
    exact ⟨rfl, rfl, hw, Chain.nil _, (by intro hc; cases hc), (by intro hc; cases hc), fun _ => rfl⟩
  · simp only [] at h
    split at h
    · injection h with h; injection h with h1 h; injection h with h2 h3; subst h1; subst h2; subst h3
      exact ⟨rfl, rfl, hw, Chain.nil _, (by intro hc; cases hc), (by intro hc; cases hc), fun _ => rfl⟩
    · rename_i hlt
      simp only [ge_iff_le, Nat.not_le] at hlt
      have hsz : st.line.toList.length = st.max := by rw [hmax]; simp
      split at h
      · split at h
        · injection h with h; injection h with h1 h; injection h with h2 h3; subst h1; subst h2; subst h3
          refine ⟨rfl, rfl, ⟨st.lnum, st.max⟩, ?_, (by intro hc; cases hc), fun _ => Pos.le_refl' _, (by intro hc; cases hc)⟩
          have hl := rstripNewlines_len (st.line.toList.drop (measureIndent P.tabsize st.line (st.max + 1) 0 st.pos).2)
          rw [List.length_drop, hsz] at hl
          refine ⟨Pos.le_trans' hhw (Pos.le_same _ _ _ (Nat.zero_le _)), Pos.le_same _ _ _ (Nat.le_add_right _ _), ?_, Pos.le_same _ _ _ (by rw [hsz]; omega), ?_⟩
          · exact Pos.le_refl' _
          · show (⟨st.lnum, st.line.toList.length⟩ : Pos) ≤ _
            rw [hsz]; exact Pos.le_refl' _
        · injection h with h; injection h with h1 h; injection h with h2 h3; subst h1; subst h2; subst h3
          refine ⟨rfl, rfl, ⟨st.lnum, st.max⟩, ?_, (by intro hc; cases hc), fun _ => Pos.le_refl' _, (by intro hc; cases hc)⟩
          refine ⟨Pos.le_trans' hhw (Pos.le_same _ _ _ (Nat.zero_le _)), Pos.le_same _ _ _ (by rw [hsz]; omega), ?_⟩
          show (⟨st.lnum, st.line.toList.length⟩ : Pos) ≤ _
          rw [hsz]; exact Pos.le_refl' _
      · split at h
        · cases h
        · rename_i ind2 toks2 hd
          injection h with h; injection h with h1 h; injection h with h2 h3; subst h1; subst h2; subst h3
          refine ⟨rfl, rfl, ⟨st.lnum, (measureIndent P.tabsize st.line (st.max + 1) 0 st.pos).2⟩, ?_, fun _ => Pos.le_refl' _, (by intro hc; cases hc), (by intro hc; cases hc)⟩
          refine dedents_ord _ _ _ _ hw _ _ _ _ _ ?_ hd
          split
          · exact Chain.one _ _ _ hhw (Pos.le_same _ _ _ (Nat.zero_le _)) (Pos.le_refl' _)
          · exact Pos.le_trans' hhw (Pos.le_same _ _ _ (Nat.zero_le _))


theorem OI.mono {hw c c' : Pos} {progs : List EndProg} (h : OI hw progs c) (hc : c ≤ c') : OI hw progs c' := by
  refine ⟨h.shape, Pos.le_trans' h.hw_cur hc, ?_⟩
  intro p rest hp
  rcases h.top p rest hp with hb | ⟨a, b⟩
  · exact Or.inl hb
  · exact Or.inr ⟨a, Pos.le_trans' b hc⟩

theorem OI.empty {hw c : Pos} (h : hw ≤ c) : OI hw [] c :=
  ⟨trivial, h, by intro p rest hp; cases hp⟩

/-- what `_tokenize` does with a fresh line before the scan loop -/
theorem lineHead_ord (E : Env) (P : Pats) (hF : FstrLen P) (hw : Pos) (st s : TState) (ts : List Tok5) (cont brk : Bool)
    (hmax : st.max = st.line.size) (hpos : st.pos = 0) (hI : OInv hw st)
    (h : lineHead E P st = .ok (s, ts, cont, brk)) :
    s.lnum = st.lnum ∧
    ∃ hw', Chain hw ts hw' ∧ (brk = true → ts = []) ∧
      (brk = false → cont = true → OI hw' s.endProgs ⟨s.lnum, s.max⟩) ∧
      (brk = false → cont = false → OInv hw' s) := by
  unfold lineHead at h
  split at h
  · split at h
    · cases h
    · rename_i ts0 s0 h0
      injection h with h; injection h with h1 h; injection h with h2 h; injection h with h3 h4; subst h1; subst h2; subst h3; subst h4
      obtain ⟨a1, _⟩ := handleEndProgs_adv E P _ _ _ (show ({ st with continued := false } : TState).max = _ from hmax) (by show st.pos ≤ st.max; omega) h0
      obtain ⟨hw', c, i, _⟩ := handleEndProgs_ord E P hF hw _ _ _ (by show st.pos ≤ st.max; omega) (show OInv hw { st with continued := false } from hI) h0
      exact ⟨a1.lnum, hw', c, (by intro hc; cases hc), (by intro _ hc; cases hc), fun _ _ => i⟩
  · rename_i hemp
    have hnil : st.endProgs = [] := by
      cases hst : st.endProgs with
      | nil => rfl
      | cons p rest => rw [hst] at hemp; simp at hemp
    have hhw : hw ≤ ⟨st.lnum, 0⟩ := by have := hI.hw_cur; simp only [cur, hpos] at this; exact this
    split at h
    · split at h
      · cases h
      · rename_i ts0 s0 h0
        injection h with h; injection h with h1 h; injection h with h2 h; injection h with h3 h4; subst h1; subst h2; subst h3; subst h4
        obtain ⟨e1, e2, hw', c, _, hcont, _⟩ := nextStatement_ord P hw st _ _ _ hmax hhw h0
        obtain ⟨_, m1, _⟩ := nextStatement_spec P st _ _ _ hmax (by omega) h0
        refine ⟨e2, hw', c, (by intro hc; cases hc), ?_, (by intro _ hc; cases hc)⟩
        intro _ _
        rw [e1, hnil, e2, m1]
        exact OI.empty (hcont rfl)
      · rename_i ts0 s0 h0
        injection h with h; injection h with h1 h; injection h with h2 h; injection h with h3 h4; subst h1; subst h2; subst h3; subst h4
        obtain ⟨e1, e2, hw', c, _, _, hbrk⟩ := nextStatement_ord P hw st _ _ _ hmax hhw h0
        exact ⟨e2, hw', c, fun _ => hbrk rfl, (by intro hc; cases hc), (by intro hc; cases hc)⟩
      · rename_i ts0 s0 h0
        injection h with h; injection h with h1 h; injection h with h2 h; injection h with h3 h4; subst h1; subst h2; subst h3; subst h4
        obtain ⟨e1, e2, hw', c, hpro, _, _⟩ := nextStatement_ord P hw st _ _ _ hmax hhw h0
        refine ⟨e2, hw', c, (by intro hc; cases hc), (by intro _ hc; cases hc), ?_⟩
        intro _ _
        show OI hw' _ _
        rw [e1, hnil]
        exact OI.empty (hpro rfl)
    · split at h
      · cases h
      · injection h with h; injection h with h1 h; injection h with h2 h; injection h with h3 h4; subst h1; subst h2; subst h3; subst h4
        exact ⟨rfl, hw, Chain.nil _, (by intro hc; cases hc), (by intro _ hc; cases hc), fun _ _ => hI⟩


theorem chain_const {α : Type} (p : Pos) (t : Tok5) (h1 : t.start = p) (h2 : t.stop = p) : ∀ l : List α, Chain p (l.map (fun _ => t)) p := by
  intro l
  induction l with
  | nil => exact Pos.le_refl' _
  | cons x xs ih => exact ⟨by rw [h1]; exact Pos.le_refl' _, by rw [h1, h2]; exact Pos.le_refl' _, by rw [h2]; exact ih⟩

/-- the implicit NEWLINE, the closing DEDENTs and the ENDMARKER continue the chain -/
theorem nextEndTokens_ord (hw : Pos) (ll : List Nat) (lc : Bool) (s : TState) (h1 : 1 ≤ s.lnum) (hhw : hw ≤ ⟨s.lnum - 1, ll.length⟩) :
    Chain hw (nextEndTokens ll lc s) ⟨s.lnum, 0⟩ := by
  unfold nextEndTokens
  simp only []
  have hstep : ∀ c : Nat, (⟨s.lnum - 1, c⟩ : Pos) ≤ ⟨s.lnum, 0⟩ := by
    intro c; rw [Pos.le_def]; simp only []; omega
  have htail : Chain (⟨s.lnum, 0⟩ : Pos)
      ((s.indents.drop 1).map (fun _ => ({ ty := .DEDENT, str := [], start := ⟨s.lnum, 0⟩, stop := ⟨s.lnum, 0⟩, line := [] } : Tok5)) ++
        [({ ty := .ENDMARKER, str := [], start := ⟨s.lnum, 0⟩, stop := ⟨s.lnum, 0⟩, line := [] } : Tok5)]) ⟨s.lnum, 0⟩ :=
    Chain.append (b := ⟨s.lnum, 0⟩) (chain_const ⟨s.lnum, 0⟩ _ rfl rfl _) (Chain.one _ _ _ (Pos.le_refl' _) (Pos.le_refl' _) (Pos.le_refl' _))
  have hnl : ∀ nl : List Tok5, Chain hw nl ⟨s.lnum, 0⟩ →
      Chain hw (nl ++ (s.indents.drop 1).map (fun _ => ({ ty := .DEDENT, str := [], start := ⟨s.lnum, 0⟩, stop := ⟨s.lnum, 0⟩, line := [] } : Tok5)) ++
        [({ ty := .ENDMARKER, str := [], start := ⟨s.lnum, 0⟩, stop := ⟨s.lnum, 0⟩, line := [] } : Tok5)]) ⟨s.lnum, 0⟩ := by
    intro nl h
    rw [List.append_assoc]
    exact Chain.append h htail
  apply hnl
  split
  · split
    · exact Chain.one _ _ _ hhw (Pos.le_same _ _ _ (Nat.le_succ _)) (hstep _)
    · exact Pos.le_trans' hhw (hstep _)
  · exact Pos.le_trans' hhw (hstep _)

/-- the loop over lines: the whole stream is a chain -/
theorem tokenizeLines_ord (E : Env) (P : Pats) (hP : PseudoProgress P) (hF : FstrLen P) :
    ∀ (fuel : Nat) (lines : List (List Nat)) (st : TState) (acc toks : List Tok5) (hw lo : Pos),
      st.max = st.line.size → OI hw st.endProgs ⟨st.lnum, st.max⟩ → Chain lo acc hw →
      tokenizeLines E P fuel lines st acc = .ok toks → ∃ hi, Chain lo toks hi := by
  intro fuel
  induction fuel with
  | zero => intro lines st acc toks hw lo _ _ _ h; simp [tokenizeLines] at h
  | succ fuel ih =>
    intro lines st acc toks hw lo hmax hI hacc h
    unfold tokenizeLines at h
    split at h
    · cases h
    · rename_i s ts cont brk hh
      have hspec := lineHead_spec E P _ s ts cont brk (moveNextLine_max st _) (by simp) hh
      have hI0 : OInv hw (st.moveNextLine (lines.headD [])) := OI.mono hI (Pos.le_next _ _ _)
      obtain ⟨hl, hw', c, hbrk, hcont, hpro⟩ := lineHead_ord E P hF hw _ s ts cont brk (moveNextLine_max st _) rfl hI0 hh
      have hl' : s.lnum = st.lnum + 1 := hl
      split at h
      · rename_i hb
        injection h with h
        subst h
        rw [hbrk hb, List.append_nil]
        refine ⟨⟨s.lnum, 0⟩, Chain.append hacc (nextEndTokens_ord hw _ _ s (by omega) ?_)⟩
        have := hI.hw_cur
        rw [hl', Nat.add_sub_cancel, Array.length_toList, ← hmax]
        exact this
      · rename_i hnb
        have hnb' : brk = false := by simpa using hnb
        split at h
        · rename_i hc
          exact ih _ s _ toks hw' lo hspec.1 (hcont hnb' hc) (Chain.append hacc c) h
        · rename_i hnc
          have hnc' : cont = false := by simpa using hnc
          split at h
          · cases h
          · rename_i s2 acc2 hs
            obtain ⟨hw2, c2, i2, m2, p2⟩ := scanLine_ord E P hP hF _ hw' lo s s2 _ acc2 hspec.1 (hspec.2 hnc' hnb') (hpro hnb' hnc') (Chain.append hacc c) hs
            exact ih _ s2 _ toks hw2 lo m2 (OI.mono i2 (cur_le_col s2 s2.max p2)) c2 h

end XV.Tz
