/-
  C01 / C04 (spans): where the end of a node's span comes from.
-/
import XonshVerif.Model.Span
namespace XV.Span
open XV

theorem scanBack_some (tys : Array TT) : ∀ (n j : Nat), scanBack tys n = some j →
    j < n ∧ (∃ t, tys[j]? = some t ∧ structural t = false) ∧ ∀ k, j < k → k < n → ∀ t, tys[k]? = some t → structural t = true := by
  intro n
  induction n with
  | zero => intro j h; simp [scanBack] at h
  | succ n ih =>
    intro j h
    simp only [scanBack] at h
    cases ht : tys[n]? with
    | none =>
      rw [ht] at h
      obtain ⟨a, b, c⟩ := ih j h
      refine ⟨by omega, b, ?_⟩
      intro k hk hkn t hkt
      by_cases hkn' : k = n
      · subst hkn'; rw [ht] at hkt; cases hkt
      · exact c k hk (by omega) t hkt
    | some t =>
      rw [ht] at h
      simp only [] at h
      by_cases hs : structural t = true
      · simp only [hs, if_true] at h
        obtain ⟨a, b, c⟩ := ih j h
        refine ⟨by omega, b, ?_⟩
        intro k hk hkn t' hkt
        by_cases hkn' : k = n
        · subst hkn'; rw [ht] at hkt; injection hkt with hkt; subst hkt; exact hs
        · exact c k hk (by omega) t' hkt
      · simp only [hs, Bool.false_eq_true, if_false] at h
        injection h with h; subst h
        refine ⟨by omega, ⟨t, ht, by simpa using hs⟩, ?_⟩
        intro k hk hkn; omega

theorem scanBack_none (tys : Array TT) : ∀ (n : Nat), scanBack tys n = none → ∀ k, k < n → ∀ t, tys[k]? = some t → structural t = true := by
  intro n
  induction n with
  | zero => intro _ k hk; omega
  | succ n ih =>
    intro h k hk t hkt
    simp only [scanBack] at h
    cases ht : tys[n]? with
    | none =>
      rw [ht] at h
      by_cases hkn : k = n
      · subst hkn; rw [ht] at hkt; cases hkt
      · exact ih h k (by omega) t hkt
    | some t' =>
      rw [ht] at h
      simp only [] at h
      by_cases hs : structural t' = true
      · simp only [hs, if_true] at h
        by_cases hkn : k = n
        · subst hkn; rw [ht] at hkt; injection hkt with hkt; subst hkt; exact hs
        · exact ih h k (by omega) t hkt
      · simp [hs] at h

/-- **span_end_is_last_significant_token.**  If, between the position `mark` at which a rule was entered and the current
    index, at least one token is significant (not ENDMARKER / NEWLINE / INDENT / DEDENT), then the token whose end
    `Parser.span` takes is the LAST significant token before the index, and it lies inside the rule's own tokens:
    `mark <= j < index`.  (Without such a token the end comes from before the rule's start - the situation in which a
    span can be inverted; a located alternative must consume a significant token.) -/
theorem span_end_is_last_significant_token (tys : Array TT) (mark index : Nat) (i : Nat) (t : TT)
    (hi : mark ≤ i ∧ i < index) (hti : tys[i]? = some t) (hsig : structural t = false) :
    mark ≤ lastNonWs tys index ∧ lastNonWs tys index < index ∧
    (∃ t', tys[lastNonWs tys index]? = some t' ∧ structural t' = false) ∧
    ∀ k, lastNonWs tys index < k → k < index → ∀ t', tys[k]? = some t' → structural t' = true := by
  unfold lastNonWs
  cases h : scanBack tys index with
  | none =>
    have := scanBack_none tys index h i hi.2 t hti
    rw [hsig] at this; cases this
  | some j =>
    simp only []
    obtain ⟨a, b, c⟩ := scanBack_some tys index j h
    refine ⟨?_, a, b, c⟩
    rcases Nat.lt_or_ge j i with hlt | hge
    · have := c i hlt hi.2 t hti
      rw [hsig] at this; cases this
    · omega

/-- Non-vacuity: `x = 1 NEWLINE DEDENT | index` - the span ends at the NUMBER. -/
example : lastNonWs #[.NAME, .OP, .NUMBER, .NEWLINE, .DEDENT, .NAME] 5 = 2 := by decide

end XV.Span
