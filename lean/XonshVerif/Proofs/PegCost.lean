import XonshVerif.Model.PegCost
namespace XV.Peg

/-- "rule `i` is memoised", as the certificate sees it -/
def memoised (prog : Prog) (i : Nat) : Bool := (memoMask prog).testBit i

/-- an edge of the non-memoised call graph -/
def NMEdge (prog : Prog) (a b : Nat) : Prop :=
  ∃ ra, prog[a]? = some ra ∧ isMemo ra = false ∧ memoised prog b = false ∧ b ∈ (callSites ra).map (·.2)

def MultiEdge (prog : Prog) (a b : Nat) : Prop :=
  NMEdge prog a b ∧ ∃ ra, prog[a]? = some ra ∧ multi (callSites ra) b = true

inductive NMPath (prog : Prog) : Nat → Nat → Prop
  | single {a b} : NMEdge prog a b → NMPath prog a b
  | cons {a b c} : NMEdge prog a b → NMPath prog b c → NMPath prog a c

theorem cycleCertAux_spec (M N : Nat) : ∀ (rs : List Rule) (i : Nat), cycleCertAux M N rs i = true →
    ∀ j r, rs[j]? = some r → checkRule M N (i + j) r = true := by
  intro rs
  induction rs with
  | nil => intro i _ j r hj; simp at hj
  | cons x xs ih =>
    intro i h j r hj
    simp only [cycleCertAux, Bool.and_eq_true] at h
    cases j with
    | zero => simp at hj; subst hj; simpa using h.1
    | succ k =>
      have := ih (i + 1) h.2 k r (by simpa using hj)
      simpa [Nat.add_assoc, Nat.add_comm 1 k] using this

theorem cert_edge (prog : Prog) (N : Nat) (h : cycleCert prog N = true) (a b : Nat) (he : NMEdge prog a b) :
    compAt N b ≤ compAt N a ∧
    (∀ ra, prog[a]? = some ra → multi (callSites ra) b = true → compAt N b < compAt N a) := by
  obtain ⟨ra, hra, hma, hmb, hmem⟩ := he
  unfold cycleCert at h
  have hget : prog.toList[a]? = some ra := by simpa using hra
  have h1 := cycleCertAux_spec _ _ _ _ h a ra hget
  simp only [Nat.zero_add, checkRule, hma, Bool.false_eq_true, if_false] at h1
  rw [List.all_eq_true] at h1
  have hb : b ∈ ((callSites ra).map (·.2)).eraseDups := by simpa using hmem
  have h2 := h1 b hb
  have hmb' : (memoMask prog).testBit b = false := hmb
  simp only [hmb', Bool.false_eq_true, if_false, Bool.and_eq_true, decide_eq_true_eq, Bool.or_eq_true, Bool.not_eq_true'] at h2
  refine ⟨h2.1, ?_⟩
  intro ra' hra' hm
  rw [hra] at hra'
  injection hra' with hra'
  subst hra'
  rcases h2.2 with h3 | h3
  · rw [hm] at h3; cases h3
  · exact h3

theorem path_comp_le (prog : Prog) (N : Nat) (h : cycleCert prog N = true) {a b : Nat}
    (p : NMPath prog a b) : compAt N b ≤ compAt N a := by
  induction p with
  | single e => exact (cert_edge prog N h _ _ e).1
  | cons e _ ih => exact Nat.le_trans ih (cert_edge prog N h _ _ e).1

/-- **no_multi_edge_on_cycle (C18, structural).**  If the certificate holds, no call edge with multiplicity two or more
    lies on a cycle of the call graph of non-memoised rules: a rule that can invoke another one twice at the same position
    is never re-entered, through rules without a memo cache, from inside that callee. -/
theorem no_multi_edge_on_cycle (prog : Prog) (N : Nat) (h : cycleCert prog N = true) (a b : Nat)
    (hm : MultiEdge prog a b) (back : NMPath prog b a ∨ b = a) : False := by
  obtain ⟨he, ra, hra, hmul⟩ := hm
  have hlt := (cert_edge prog N h a b he).2 ra hra hmul
  rcases back with p | rfl
  · have := path_comp_le prog N h p
    omega
  · omega

/-- a memoised rule called at a position that is already in the cache evaluates no body: one `reset`, nothing else
    (**memo_hit_is_constant**) -/
theorem memo_hit_is_constant (prog : Prog) (w : Array RTok) (fuel id : Nat) (s : St) (r : Rule) (e : Nat)
    (hr : prog[id]? = some r) (hd : r.deco = .memo) (hc : cacheGet s.cache s.pos id = some (.ok e)) :
    execRule prog w (fuel + 1) id s = (.ok e, s.reset e) := by
  simp [execRule, hr, hd, hc]

end XV.Peg
