/-
  C01 / C09 - which raw tokens the parser sees: besides `kept_no_trivia` and `kept_sublist` (Model/TokenSource.lean):
  every token that is not a comment, a blank, a NL, a whitespace ERRORTOKEN or a NEWLINE is kept, and no two NEWLINE tokens
  are ever adjacent in what the parser sees.
-/
import XonshVerif.Model.TokenSource
namespace XV.Src
open XV XV.Rx XV.Tz

/-- tokens that are never dropped, whatever precedes them -/
def alwaysKept (E : Env) (t : Tok5) : Bool :=
  !(t.ty = .NL || t.ty = .COMMENT || t.ty = .WS || (t.ty = .ERRORTOKEN && t.str.all E.isSpace) || t.ty = .NEWLINE)

theorem keepAux_mem_acc (E : Env) : ∀ (raw acc : List Tok5) (t : Tok5), t ∈ acc → t ∈ keepAux E raw acc := by
  intro raw
  induction raw with
  | nil => intro acc t h; simpa [keepAux] using h
  | cons r rs ih =>
    intro acc t h
    simp only [keepAux]
    split
    · exact ih acc t h
    · exact ih (r :: acc) t (List.mem_cons_of_mem _ h)

theorem keepAux_keeps (E : Env) : ∀ (raw acc : List Tok5) (t : Tok5), t ∈ raw → alwaysKept E t = true → t ∈ keepAux E raw acc := by
  intro raw
  induction raw with
  | nil => intro acc t h; cases h
  | cons r rs ih =>
    intro acc t h hk
    simp only [keepAux]
    rcases List.mem_cons.mp h with rfl | h
    · have hnb : isBlank E acc.head? t = false := by
        simp only [alwaysKept, Bool.not_eq_true', Bool.or_eq_false_iff] at hk
        simp only [isBlank, Bool.or_eq_false_iff]
        refine ⟨⟨⟨⟨hk.1.1.1.1, hk.1.1.1.2⟩, hk.1.1.2⟩, hk.1.2⟩, ?_⟩
        simp only [Bool.and_eq_false_iff]; exact Or.inl hk.2
      rw [hnb]
      simp only [Bool.false_eq_true, if_false]
      exact keepAux_mem_acc E rs (t :: acc) t (by simp)
    · split
      · exact ih acc t h hk
      · exact ih (r :: acc) t h hk

/-- **kept_keeps_significant**: a raw token that is not trivia and not a NEWLINE always reaches the parser -/
theorem kept_keeps_significant (E : Env) (raw : List Tok5) (t : Tok5) (h : t ∈ raw) (hk : alwaysKept E t = true) : t ∈ kept E raw :=
  keepAux_keeps E raw [] t h hk

/-- no two neighbours are both NEWLINE -/
def noDoubleNL : List Tok5 → Bool
  | [] => true
  | [_] => true
  | a :: b :: r => !(a.ty = .NEWLINE && b.ty = .NEWLINE) && noDoubleNL (b :: r)

theorem noDoubleNL_rev_cons (t : Tok5) : ∀ (acc : List Tok5), noDoubleNL acc.reverse = true →
    (match acc.head? with | some p => !(p.ty = .NEWLINE && t.ty = .NEWLINE) | none => true) = true → noDoubleNL (t :: acc).reverse = true := by
  intro acc
  -- (t :: acc).reverse = acc.reverse ++ [t]; induction on acc.reverse
  suffices h : ∀ (l : List Tok5), noDoubleNL l = true → (match l.getLast? with | some p => !(p.ty = .NEWLINE && t.ty = .NEWLINE) | none => true) = true → noDoubleNL (l ++ [t]) = true by
    intro h1 h2
    rw [List.reverse_cons]
    apply h _ h1
    rw [List.getLast?_reverse]; exact h2
  intro l
  induction l with
  | nil => intro _ _; rfl
  | cons a l ih =>
    intro h1 h2
    cases l with
    | nil =>
      simp only [List.getLast?_singleton] at h2
      simp only [List.cons_append, List.nil_append, noDoubleNL, Bool.and_true]
      exact h2
    | cons b r =>
      simp only [noDoubleNL, Bool.and_eq_true] at h1
      simp only [List.cons_append, noDoubleNL, Bool.and_eq_true]
      refine ⟨h1.1, ?_⟩
      have := ih h1.2 (by rw [List.getLast?_cons_cons] at h2; exact h2)
      simpa using this

theorem keepAux_noDoubleNL (E : Env) : ∀ (raw acc : List Tok5), noDoubleNL acc.reverse = true → noDoubleNL (keepAux E raw acc) = true := by
  intro raw
  induction raw with
  | nil => intro acc h; simpa [keepAux] using h
  | cons r rs ih =>
    intro acc h
    simp only [keepAux]
    split
    · exact ih acc h
    · rename_i hnb
      apply ih (r :: acc)
      apply noDoubleNL_rev_cons r acc h
      simp only [isBlank, Bool.or_eq_true, Bool.and_eq_true, decide_eq_true_eq, not_or, not_and] at hnb
      cases hh : acc.head? with
      | none => rfl
      | some p =>
        simp only []
        have := hnb.2
        rw [hh] at this
        simp only [decide_eq_true_eq] at this
        by_cases h1 : p.ty = .NEWLINE
        · by_cases h2 : r.ty = .NEWLINE
          · exact absurd h1 (this h2)
          · simp [h2]
        · simp [h1]

/-- **kept_no_double_newline**: the parser never sees two NEWLINE tokens in a row (`Tokenizer.peek` drops the second) -/
theorem kept_no_double_newline (E : Env) (raw : List Tok5) : noDoubleNL (kept E raw) = true :=
  keepAux_noDoubleNL E raw [] rfl

end XV.Src
