/-
  C08 - the text of FSTRING_MIDDLE tokens (literal parts of f-strings and format specs, across lines) is the source text
  between their coordinates.  An overlay that runs next to the order invariant of Proofs/TokOrder.lean (whose strict
  stack shape says what a pop reveals and what is restarted): a literal-accumulating prog on top of the mode stack has
  accumulated exactly the source text from its start to the scan position.
-/
import XonshVerif.Proofs.TokOrder
import XonshVerif.Proofs.RegexSuffix
set_option linter.unusedSimpArgs false
namespace XV.Tz
open XV XV.Rx

/-- prog `p` has accumulated the source text from its start up to `c` -/
def TextAt (lines : List (List Nat)) (p : EndProg) (c : Pos) : Prop :=
  p.text = srcText lines p.start c ∧ off lines p.start ≤ off lines c

structure FT (lines : List (List Nat)) (st : TState) : Prop where
  line : LineOK lines st
  top : ∀ p rest, st.endProgs = p :: rest → isB p = false → TextAt lines p (cur st)

/-- the token kinds this file is about: the parts of f-strings, and all operators (the f-string scanner emits `{` / `}`) -/
def FsTy (t : Tok5) : Prop := t.ty = .FSTRING_MIDDLE ∨ t.ty = .FSTRING_END ∨ t.ty = .OP

/-- all FSTRING_MIDDLE / FSTRING_END / OP tokens of a list are source slices -/
def MidOK (lines : List (List Nat)) (ts : List Tok5) : Prop := ∀ t ∈ ts, FsTy t → TokSrc lines t

/-- what the patterns must guarantee for the delimiters: a match of the scanners ends with the brace / the closing quote -/
structure FstrEnds (P : Pats) : Prop where
  lbrace : ∀ q, endsWith (lookupPat P.startLBrace q) [123] = true
  rbrace : endsWith P.endRBrace [125] = true
  endq : ∀ tok, endsWith (lookupPat P.endpats (strOfCps (quoteOf tok))) (quoteOf tok) = true

theorem MidOK.nil (lines : List (List Nat)) : MidOK lines [] := by intro t ht; cases ht
theorem MidOK.append {lines : List (List Nat)} {a b : List Tok5} (ha : MidOK lines a) (hb : MidOK lines b) : MidOK lines (a ++ b) := by
  intro t ht hty
  rcases List.mem_append.mp ht with h | h
  · exact ha t h hty
  · exact hb t h hty
theorem MidOK.of_none {lines : List (List Nat)} {ts : List Tok5} (h : ∀ t ∈ ts, ¬ FsTy t) : MidOK lines ts :=
  fun t ht hty => absurd hty (h t ht)

theorem TextAt.restart (lines : List (List Nat)) (q : EndProg) (c : Pos) :
    TextAt lines { q with start := c, text := [], contline := [] } c := by
  refine ⟨?_, Nat.le_refl _⟩
  simp [srcText]

/-- `prog_token(end, type)`: the token is the source slice from the prog's start to `end` -/
theorem progToken_ft (lines : List (List Nat)) (st : TState) (e : Nat) (ty : TT) (p : EndProg) (rest : List EndProg)
    (hl : LineOK lines st) (hp : st.endProgs = p :: rest) (ht : TextAt lines p (cur st)) (hpe : st.pos ≤ e) (hemax : e ≤ st.max) :
    TokSrc lines (st.progToken e ty).1 ∧
    ∃ p', (st.progToken e ty).2.endProgs = p' :: rest ∧ p'.mode = p.mode ∧ TextAt lines p' ⟨st.lnum, e⟩ := by
  obtain ⟨htxt, hoff⟩ := ht
  have happ := srcText_append lines p.start st.lnum st.line.toList hl.one hl.cur st.pos e hpe
    (by rw [hl.max] at hemax; simpa using hemax) hoff
  unfold TState.progToken
  rw [hp]
  refine ⟨?_, _, rfl, rfl, ?_, ?_⟩
  · unfold TokSrc
    simp only []
    rw [slice_eq, htxt]; exact happ
  · simp only []
    rw [slice_eq, htxt]; exact happ
  · simp only [cur] at hoff ⊢
    unfold off at hoff ⊢
    simp only [] at hoff ⊢
    omega

theorem emitMiddle_ft (lines : List (List Nat)) (st : TState) (me : Nat) (prog : EndProg) (rest : List EndProg)
    (hl : LineOK lines st) (hp : st.endProgs = prog :: rest) (ht : TextAt lines prog (cur st)) (hpe : st.pos ≤ me) (hemax : me ≤ st.max) :
    MidOK lines (emitMiddle st me prog).1 := by
  unfold emitMiddle
  split
  · intro t htm _
    simp only [List.mem_singleton] at htm
    subst htm
    exact (progToken_ft lines st me .FSTRING_MIDDLE prog rest hl hp ht hpe hemax).1
  · exact MidOK.nil _


theorem MidOK.emit_then {lines : List (List Nat)} {a : List Tok5} {t : Tok5} (ha : MidOK lines a) (ht : FsTy t → TokSrc lines t) :
    MidOK lines (a ++ [t]) :=
  MidOK.append ha (by intro u hu; simp only [List.mem_singleton] at hu; subst hu; exact ht)

/-- a text on the current line is the source between its coordinates -/
theorem slice_src (lines : List (List Nat)) (st : TState) (s e : Nat) (hl : LineOK lines st) (hse : s ≤ e) (hemax : e ≤ st.max) :
    slice st.line s e = srcText lines ⟨st.lnum, s⟩ ⟨st.lnum, e⟩ := by
  have h0 : srcText lines ⟨st.lnum, s⟩ ⟨st.lnum, s⟩ = [] := by simp [srcText]
  have := srcText_append lines ⟨st.lnum, s⟩ st.lnum st.line.toList hl.one hl.cur s e hse
    (by rw [hl.max] at hemax; simpa using hemax) (Nat.le_refl _)
  rw [h0, List.nil_append] at this
  rw [slice_eq, this]

/-- a delimiter token of the f-string scanner: its text is the last `|w|` characters of the match -/
theorem delim_src (lines : List (List Nat)) (st : TState) (e : Nat) (w : List Nat) (hl : LineOK lines st)
    (hwe : w.length ≤ e) (hemax : e ≤ st.max) (hsuf : (st.line.extract (e - w.length) e).toList = w)
    (t : Tok5) (hs : t.start = ⟨st.lnum, e - w.length⟩) (hp : t.stop = ⟨st.lnum, e⟩) (hstr : t.str = w) : TokSrc lines t := by
  unfold TokSrc
  rw [hs, hp, hstr, ← slice_src lines st (e - w.length) e hl (by omega) hemax]
  exact hsuf.symm

theorem emitMiddle_pos (st : TState) (me : Nat) (prog : EndProg) (rest : List EndProg) (hp : st.endProgs = prog :: rest) (hpe : st.pos ≤ me) :
    (emitMiddle st me prog).2.pos = me ∧ (emitMiddle st me prog).2.lnum = st.lnum := by
  unfold emitMiddle
  split
  · unfold TState.progToken; rw [hp]; exact ⟨rfl, rfl⟩
  · rename_i hno
    simp only [Bool.or_eq_true, decide_eq_true_eq, not_or] at hno
    exact ⟨by show st.pos = me; omega, rfl⟩

/-- what a named match of the f-string scanner ends with -/
theorem fstr_match_ends (P : Pats) (hE : FstrEnds P) (prog : EndProg) (hok : ProgOK prog) (group : String) (r : Re)
    (hmem : (group, r) ∈ patBranches P prog.pat) :
    (group = "End" → endsWith r prog.quote = true) ∧ (group = "LBrace" → endsWith r [123] = true) ∧
    (group = "RBrace" → endsWith r [125] = true) := by
  obtain ⟨hk, hq⟩ := hok
  cases hpat : prog.pat with
  | endpat q =>
    rw [hpat] at hmem
    simp only [patBranches, List.mem_singleton, Prod.mk.injEq] at hmem
    refine ⟨?_, ?_, ?_⟩ <;> (intro hg; rw [hmem.1] at hg; exact absurd hg (by decide))
  | empty =>
    rw [hpat] at hmem
    simp only [patBranches, List.mem_singleton, Prod.mk.injEq] at hmem
    refine ⟨?_, ?_, ?_⟩ <;> (intro hg; rw [hmem.1] at hg; exact absurd hg (by decide))
  | rbrace =>
    rw [hpat] at hmem
    simp only [patBranches, List.mem_singleton, Prod.mk.injEq] at hmem
    refine ⟨?_, ?_, fun _ => by rw [hmem.2]; exact hE.rbrace⟩ <;> (intro hg; rw [hmem.1] at hg; exact absurd hg (by decide))
  | fstr q =>
    have hM : isM prog = true := by
      unfold kindOK at hk; rw [hpat] at hk
      unfold isM
      cases hm : prog.mode <;> simp [hm] at hk ⊢
    rw [hpat] at hmem
    simp only [patBranches, List.mem_cons, Prod.mk.injEq, List.not_mem_nil, or_false] at hmem
    rcases hmem with ⟨hg, hr⟩ | ⟨hg, hr⟩
    · refine ⟨?_, fun _ => by rw [hr]; exact hE.lbrace q, ?_⟩ <;> (intro hg2; rw [hg] at hg2; exact absurd hg2 (by decide))
    · obtain ⟨hp2, tok, htok⟩ := hq hM
      rw [hpat] at hp2
      injection hp2 with hp2
      refine ⟨fun _ => ?_, ?_, ?_⟩
      · rw [hr, hp2, htok]; exact hE.endq tok
      · intro hg2; rw [hg] at hg2; exact absurd hg2 (by decide)
      · intro hg2; rw [hg] at hg2; exact absurd hg2 (by decide)

theorem handleFstringProgs_ft (lines : List (List Nat)) (E : Env) (P : Pats) (hF : FstrLen P) (hE : FstrEnds P) (hw : Pos) (st st' : TState)
    (ts : List Tok5) (mt : Bool) (hI : OInv hw st) (hft : FT lines st)
    (h : handleFstringProgs E P st = .ok (ts, st', mt)) : MidOK lines ts ∧ FT lines st' := by
  obtain ⟨hadv, hle'⟩ := handleFstringProgs_adv E P st st' ts mt hft.line.max hft.line.pos h
  have hl' : LineOK lines st' := hft.line.of_adv hadv hle'
  unfold handleFstringProgs at h
  split at h
  · injection h with h; injection h with h1 h; injection h with h2 h3; subst h1; subst h2
    exact ⟨MidOK.nil _, hft⟩
  · rename_i prog rest hprogs
    split at h
    · cases h
    · injection h with h; injection h with h1 h; injection h with h2 h3; subst h1; subst h2
      exact ⟨MidOK.nil _, hft⟩
    · rename_i group e hm
      obtain ⟨r, hmem, hmat⟩ := matchBranches_sound _ _ _ _ _ _ _ hm
      have hlen := matchAt_minLen _ _ _ _ _ _ hmat
      have hbd : e ≤ st.max := by rw [hft.line.max]; exact matchBranches_le _ _ _ _ _ _ _ (by rw [← hft.line.max]; exact hft.line.pos) hm
      have hsh : Shape (prog :: rest) := hprogs ▸ hI.shape
      simp only [] at h
      split at h
      · injection h with h; injection h with h1 h; injection h with h2 h3; subst h1; subst h2
        exact ⟨MidOK.nil _, hft⟩
      · rename_i hne
        have hfacts := fstr_match_facts P hF prog hsh.ok group r hmem hne
        have hends := fstr_match_ends P hE prog hsh.ok group r hmem
        split at h
        · rename_i hEg
          injection h with h; injection h with h1 h; injection h with h2 h3; subst h1; subst h2
          have ⟨hM, hql⟩ : isM prog = true ∧ prog.quote.length ≤ minLen r := by
            rcases hfacts with ⟨_, a, b⟩ | ⟨hg, _, _⟩ | ⟨hg, _, _⟩
            · exact ⟨a, b⟩
            · rw [hEg] at hg; exact absurd hg (by decide)
            · rw [hEg] at hg; exact absurd hg (by decide)
          have htext := hft.top prog rest hprogs (isM_notB hM)
          obtain ⟨hsuf1, hsuf2⟩ := matchAt_endsWith _ _ _ _ _ _ _ (hends.1 hEg) hmat
          obtain ⟨ep1, ep2⟩ := emitMiddle_pos st (e - prog.quote.length) prog rest hprogs (by omega)
          refine ⟨MidOK.emit_then (emitMiddle_ft lines st _ prog rest hft.line hprogs htext (by omega) (by omega))
            (fun _ => delim_src lines st e prog.quote hft.line hsuf1 hbd hsuf2 _ (by simp only [ep1, ep2]) (by simp only [ep2]) rfl), hl', ?_⟩
          intro q more hq hnb
          obtain ⟨p', hp', _⟩ := emitMiddle_stack st (e - prog.quote.length) prog prog rest hprogs
          change ((emitMiddle st (e - prog.quote.length) prog).2.popMode none).endProgs = q :: more at hq
          rw [popMode_endProgs_none _ p' rest hp'] at hq; subst hq
          rw [hsh.below_notB (isM_notB hM)] at hnb; cases hnb
        · rename_i hnE
          split at h
          · rename_i hL
            injection h with h; injection h with h1 h; injection h with h2 h3; subst h1; subst h2
            have ⟨hM, hql⟩ : isM prog = true ∧ 1 ≤ minLen r := by
              rcases hfacts with ⟨hg, _, _⟩ | ⟨_, a, b⟩ | ⟨hg, _, _⟩
              · exact absurd hg hnE
              · exact ⟨a, b⟩
              · rw [hL] at hg; exact absurd hg (by decide)
            have htext := hft.top prog rest hprogs (isM_notB hM)
            obtain ⟨hsuf1, hsuf2⟩ := matchAt_endsWith _ _ _ _ _ _ _ (hends.2.1 hL) hmat
            obtain ⟨ep1, ep2⟩ := emitMiddle_pos st (e - 1) prog rest hprogs (by omega)
            refine ⟨MidOK.emit_then (emitMiddle_ft lines st _ prog rest hft.line hprogs htext (by omega) (by omega))
              (fun _ => delim_src lines st e [123] hft.line hsuf1 hbd hsuf2 _ (by simp only [ep1, ep2, List.length_singleton]) (by simp only [ep2]) rfl), hl', ?_⟩
            intro q more hq hnb
            simp only [TState.addProg, List.cons.injEq] at hq
            obtain ⟨hq1, _⟩ := hq
            subst hq1
            cases hnb
          · rename_i hnL
            injection h with h; injection h with h1 h; injection h with h2 h3; subst h1; subst h2
            have ⟨hC, hql⟩ : isC prog = true ∧ 1 ≤ minLen r := by
              rcases hfacts with ⟨hg, _, _⟩ | ⟨hg, _, _⟩ | ⟨_, a, b⟩
              · exact absurd hg hnE
              · exact absurd hg hnL
              · exact ⟨a, b⟩
            have htext := hft.top prog rest hprogs (isC_notB hC)
            have hRg : group = "RBrace" := by
              rcases hfacts with ⟨hg, _, _⟩ | ⟨hg, _, _⟩ | ⟨hg, _, _⟩
              · exact absurd hg hnE
              · exact absurd hg hnL
              · exact hg
            obtain ⟨hsuf1, hsuf2⟩ := matchAt_endsWith _ _ _ _ _ _ _ (hends.2.2 hRg) hmat
            obtain ⟨ep1, ep2⟩ := emitMiddle_pos st (e - 1) prog rest hprogs (by omega)
            refine ⟨MidOK.emit_then (emitMiddle_ft lines st _ prog rest hft.line hprogs htext (by omega) (by omega))
              (fun _ => delim_src lines st e [125] hft.line hsuf1 hbd hsuf2 _ (by simp only [ep1, ep2, List.length_singleton]) (by simp only [ep2]) rfl), hl', ?_⟩
            obtain ⟨p', hp', _⟩ := emitMiddle_stack st (e - 1) prog prog rest hprogs
            cases rest with
            | nil =>
              rcases hsh.2 with hM | hN
              · unfold isM at hM; unfold isC at hC; cases hmm : prog.mode <;> simp [hmm] at hM hC
              · unfold isN at hN; unfold isC at hC; cases hmm : prog.mode <;> simp [hmm] at hN hC
            | cons b rest2 =>
              have hB : isB b = true := hsh.below_notB (isC_notB hC)
              obtain ⟨m, rest3, hr2, hMm⟩ := (hsh.tail).below_B hB
              subst hr2
              have e1 : (({ (emitMiddle st (e - 1) prog).2 with parenlev := (emitMiddle st (e - 1) prog).2.parenlev - 1 } : TState).popMode none).endProgs = b :: m :: rest3 :=
                popMode_endProgs_none _ p' _ hp'
              have e2 := popMode_endProgs_some (({ (emitMiddle st (e - 1) prog).2 with parenlev := (emitMiddle st (e - 1) prog).2.parenlev - 1 } : TState).popMode none) b (m :: rest3)
                ⟨(emitMiddle st (e - 1) prog).2.lnum, e⟩ e1
              simp only [] at e2
              intro q more hq _
              change (TState.popMode _ _).endProgs = q :: more at hq
              rw [e2] at hq
              simp only [List.cons.injEq] at hq
              obtain ⟨hq1, _⟩ := hq
              subst hq1
              simp only [cur, popMode_lnum]
              exact TextAt.restart lines m _


theorem endProgStep_ft (lines : List (List Nat)) (E : Env) (P : Pats) (hF : FstrLen P) (hE : FstrEnds P) (hw : Pos) (st st' : TState) (prog : EndProg)
    (rest : List EndProg) (ts : List Tok5) (mt early : Bool) (hp : st.endProgs = prog :: rest) (hnb : st.inBraces = false)
    (hI : OInv hw st) (hft : FT lines st) (h : endProgStep E P st prog = .ok (ts, st', mt, early)) :
    MidOK lines ts ∧ FT lines st' := by
  have hadv1 := endProgStep_adv E P st st' prog rest ts mt early hft.line.max hft.line.pos hp h
  have hl1 := hft.line.of_adv hadv1.1 hadv1.2
  unfold endProgStep at h
  split at h
  · split at h
    · cases h
    · rename_i ts0 s0 m0 hf
      injection h with h; injection h with h1 h; injection h with h2 h; subst h1; subst h2
      exact handleFstringProgs_ft lines E P hF hE hw st _ _ _ hI hft hf
  · rename_i hnmc
    split at h
    · cases h
    · rename_i nm e hm
      injection h with h; injection h with h1 h; injection h with h2 h; subst h1; subst h2
      have hN : isN prog = true := by
        rw [inBraces_eq st prog rest hp] at hnb
        rw [inMiddle_eq st prog rest hp, inColon_eq st prog rest hp] at hnmc
        rcases kind_cases prog with h | h | h | h
        · exact h
        · simp [h] at hnmc
        · rw [h] at hnb; cases hnb
        · simp [h] at hnmc
      have hsh : Shape (prog :: rest) := hp ▸ hI.shape
      refine ⟨MidOK.of_none ?_, hl1, ?_⟩
      · intro t ht
        simp only [List.mem_singleton] at ht
        subst ht
        unfold TState.progToken; rw [hp]; simp [FsTy]
      · intro q more hq hqb
        have hend : ((st.progToken e .STRING).2.popMode none).endProgs = rest := by
          apply popMode_endProgs_none _ { prog with text := prog.text ++ slice st.line st.pos e } rest
          unfold TState.progToken; rw [hp]
        rw [hend] at hq
        subst hq
        rw [hsh.below_notB (isN_notB hN)] at hqb; cases hqb
    · injection h with h; injection h with h1 h; injection h with h2 h; subst h1; subst h2
      exact ⟨MidOK.nil _, hft⟩

theorem endProgFinish_ft (lines : List (List Nat)) (ts ts' : List Tok5) (s s' : TState) (matched early : Bool)
    (hft : FT lines s) (h : endProgFinish ts s matched early = .ok (ts', s')) : FT lines s' := by
  unfold endProgFinish at h
  split at h
  · injection h with h; injection h with h1 h2; subst h2; exact hft
  · split at h
    · injection h with h; injection h with h1 h2; subst h2; exact hft
    · rename_i hnbe
      split at h
      · injection h with h; injection h with h1 h2; subst h2; exact hft
      · split at h
        · split at h
          · injection h with h; injection h with h1 h2; subst h2; exact hft
          · rename_i p rest hp
            injection h with h; injection h with h1 h2; subst h2
            have hpb : isB p = false := by
              simp only [Bool.or_eq_true, not_or, Bool.not_eq_true] at hnbe
              rw [← inBraces_eq s p rest hp]; exact hnbe.1
            obtain ⟨htxt, hoff⟩ := hft.top p rest hp hpb
            refine ⟨⟨hft.line.one, hft.line.cur, hft.line.max, Nat.le_refl _⟩, ?_⟩
            intro q more hq _
            simp only [List.cons.injEq] at hq
            obtain ⟨hq1, _⟩ := hq
            subst hq1
            have happ := srcText_append lines p.start s.lnum s.line.toList hft.line.one hft.line.cur s.pos s.line.size
              (by rw [← hft.line.max]; exact hft.line.pos) (by simp) hoff
            simp only [cur] at htxt hoff ⊢
            refine ⟨by simp only []; rw [slice_eq, htxt, happ, hft.line.max], ?_⟩
            unfold off at hoff ⊢
            simp only [] at hoff ⊢
            have := hft.line.pos
            omega
        · split at h
          · cases h
          · injection h with h; injection h with h1 h2; subst h2; exact hft

theorem handleEndProgs_ft (lines : List (List Nat)) (E : Env) (P : Pats) (hF : FstrLen P) (hE : FstrEnds P) (hw : Pos) (st st' : TState) (ts : List Tok5)
    (hI : OInv hw st) (hft : FT lines st) (h : handleEndProgs E P st = .ok (ts, st')) :
    MidOK lines ts ∧ FT lines st' := by
  unfold handleEndProgs at h
  split at h
  · injection h with h; injection h with h1 h2; subst h1; subst h2; exact ⟨MidOK.nil _, hft⟩
  · rename_i prog rest hp
    split at h
    · cases h
    · split at h
      · injection h with h; injection h with h1 h2; subst h1; subst h2; exact ⟨MidOK.nil _, hft⟩
      · rename_i hnb
        split at h
        · cases h
        · rename_i ts1 s1 m1 e1 hstep
          obtain ⟨a, b⟩ := endProgStep_ft lines E P hF hE hw st s1 prog rest ts1 m1 e1 hp (by simpa using hnb) hI hft hstep
          have hts : ts = ts1 := by
            unfold endProgFinish at h
            split at h
            · injection h with h; injection h with h1 h2; exact h1.symm
            · split at h
              · injection h with h; injection h with h1 h2; exact h1.symm
              · split at h
                · injection h with h; injection h with h1 h2; exact h1.symm
                · split at h
                  · split at h
                    · injection h with h; injection h with h1 h2; exact h1.symm
                    · injection h with h; injection h with h1 h2; exact h1.symm
                  · split at h
                    · cases h
                    · injection h with h; injection h with h1 h2; exact h1.symm
          rw [hts]
          exact ⟨a, endProgFinish_ft lines ts1 ts s1 st' m1 e1 b h⟩


/-- `add_prog(s, e)` on the current line: the new prog holds the source from `s` to `e` -/
theorem addProg_text (lines : List (List Nat)) (st : TState) (s e : Nat) (mode : Mode) (pat : PatKind) (q : List Nat)
    (hl : LineOK lines st) (hse : s ≤ e) (hemax : e ≤ st.max) :
    TextAt lines { mode := mode, pat := pat, text := slice st.line s e, contline := st.line.toList, start := ⟨st.lnum, s⟩, quote := q } ⟨st.lnum, e⟩ := by
  have h0 : srcText lines ⟨st.lnum, s⟩ ⟨st.lnum, s⟩ = [] := by simp [srcText]
  have := srcText_append lines ⟨st.lnum, s⟩ st.lnum st.line.toList hl.one hl.cur s e hse
    (by rw [hl.max] at hemax; simpa using hemax) (Nat.le_refl _)
  rw [h0, List.nil_append] at this
  refine ⟨by simp only []; rw [slice_eq, this], ?_⟩
  unfold off; simp only []; omega

theorem FT.same {lines : List (List Nat)} {st s : TState} (hl : LineOK lines s) (hB : TopB st) (h1 : s.endProgs = st.endProgs) : FT lines s := by
  refine ⟨hl, ?_⟩
  intro p rest hp hb
  rw [h1] at hp
  rw [hB p rest hp] at hb; cases hb

theorem specialAction_ft (lines : List (List Nat)) (st : TState) (start e : Nat) (hsh : Shape st.endProgs) (hB : TopB st)
    (hl : LineOK lines st) (hpos : st.pos = e) : FT lines (specialAction st start e) := by
  obtain ⟨f1, f2, f3, f4⟩ := specialAction_frame st start e
  have hl' : LineOK lines (specialAction st start e) := ⟨by rw [f3]; exact hl.one, by rw [f3, f1]; exact hl.cur, by rw [f2, f1]; exact hl.max, by rw [f4, f2]; exact hl.pos⟩
  refine ⟨hl', ?_⟩
  have hcur : cur (specialAction st start e) = ⟨st.lnum, e⟩ := by simp only [cur, f3, f4, hpos]
  rw [hcur]
  have hsame : ∀ s : TState, s.endProgs = st.endProgs → ∀ p rest, s.endProgs = p :: rest → isB p = false → TextAt lines p ⟨st.lnum, e⟩ := by
    intro s h1 p rest hp hb
    rw [h1] at hp
    rw [hB p rest hp] at hb; cases hb
  unfold specialAction
  split
  · exact hsame _ rfl
  · split
    · by_cases hc : (st.inBraces && st.atParenlev) = true
      · simp only [hc, if_true]
        simp only [Bool.and_eq_true] at hc
        cases hst : st.endProgs with
        | nil => have := hc.1; unfold TState.inBraces at this; rw [hst] at this; cases this
        | cons b rest =>
          have hbB : isB b = true := hB b rest hst
          obtain ⟨m, more, hr, hM⟩ := (hst ▸ hsh : Shape (b :: rest)).below_B hbB
          subst hr
          have e2 := popMode_endProgs_some st b (m :: more) ⟨st.lnum, e⟩ hst
          simp only [] at e2
          intro q more' hq _
          change (st.popMode _).endProgs = q :: more' at hq
          rw [e2] at hq
          simp only [List.cons.injEq] at hq
          obtain ⟨hq1, _⟩ := hq
          subst hq1
          exact TextAt.restart lines m _
      · simp only [hc, if_false, Bool.false_eq_true]
        exact hsame _ rfl
    · split
      · rename_i hcol
        simp only [Bool.and_eq_true, decide_eq_true_eq] at hcol
        obtain ⟨⟨hs, _⟩, _⟩ := hcol
        have hsz : e ≤ st.line.size := by rw [← hl.max, ← hpos]; exact hl.pos
        have hlen := slice_len st.line start e hsz
        rw [hs] at hlen
        simp only [List.length_singleton] at hlen
        intro q more hq _
        simp only [TState.addProg, List.cons.injEq] at hq
        obtain ⟨hq1, _⟩ := hq
        subst hq1
        exact addProg_text lines st (start + 1) e _ _ _ hl (by omega) (by rw [← hpos]; exact hl.pos)
      · exact hsame _ rfl

set_option hygiene false in
macro "ft_ok" : tactic => `(tactic| (injection h with h; injection h with h1 h2; subst h1; subst h2; exact ⟨(by intro t ht hf; injection ht with ht; subst ht; simp [FsTy, mkTok] at hf), FT.same hl hB rfl⟩))

theorem pseudoAction_ft (lines : List (List Nat)) (st st' : TState) (group : String) (start e : Nat) (tok : Option Tok5)
    (hsh : Shape st.endProgs) (hB : TopB st) (hl : LineOK lines st) (hse : start ≤ e) (hpos : st.pos = e)
    (h : pseudoAction st group start e = .ok (tok, st')) :
    (∀ t, tok = some t → FsTy t → TokSrc lines t) ∧ FT lines st' := by
  have hemax : e ≤ st.max := by rw [← hpos]; exact hl.pos
  unfold pseudoAction at h
  split at h
  · split at h
    · injection h with h; injection h with h1 h2; subst h1; subst h2
      refine ⟨(by intro t ht hf; injection ht with ht; subst ht; simp [FsTy, mkTok] at hf), ⟨⟨hl.one, hl.cur, hl.max, hl.pos⟩, ?_⟩⟩
      intro q more hq _
      simp only [TState.addProg, List.cons.injEq] at hq
      obtain ⟨hq1, _⟩ := hq
      subst hq1
      simp only [cur, TState.addProg, hpos]
      exact addProg_text lines st e e _ _ _ hl (Nat.le_refl _) hemax
    · injection h with h; injection h with h1 h2; subst h1; subst h2
      refine ⟨(by intro t ht; cases ht), ⟨⟨hl.one, hl.cur, hl.max, hl.pos⟩, ?_⟩⟩
      intro q more hq _
      simp only [TState.addProg, List.cons.injEq] at hq
      obtain ⟨hq1, _⟩ := hq
      subst hq1
      simp only [cur, TState.addProg, hpos]
      exact addProg_text lines st start e _ _ _ hl hse hemax
  · split at h
    · ft_ok
    · split at h
      · ft_ok
      · split at h
        · ft_ok
        · split at h
          · ft_ok
          · split at h
            · ft_ok
            · split at h
              · injection h with h; injection h with h1 h2; subst h1; subst h2
                refine ⟨?_, FT.same hl hB rfl⟩
                intro t ht hf; injection ht with ht; subst ht
                exfalso
                simp only [FsTy, mkTok] at hf
                split at hf <;> simp at hf
              · split at h
                · injection h with h; injection h with h1 h2; subst h1; subst h2
                  refine ⟨?_, specialAction_ft lines st start e hsh hB hl hpos⟩
                  intro t ht _; injection ht with ht; subst ht
                  exact slice_src lines st start e hl hse hemax
                · split at h
                  · injection h with h; injection h with h1 h2; subst h1; subst h2
                    exact ⟨(by intro t ht; cases ht), FT.same (s := { st with continued := true }) ⟨hl.one, hl.cur, hl.max, hl.pos⟩ hB rfl⟩
                  · cases h


theorem nextPseudoMatches_ft (lines : List (List Nat)) (E : Env) (P : Pats) (hw : Pos) (st st' : TState) (tok : Option Tok5)
    (hI : OInv hw st) (hft : FT lines st) (hpre : TopB st ∨ st.pos = st.max ∨ st.inMiddle = true)
    (h : nextPseudoMatches E P st = .ok (tok, st')) :
    (∀ t, tok = some t → FsTy t → TokSrc lines t) ∧ FT lines st' := by
  unfold nextPseudoMatches at h
  split at h
  · injection h with h; injection h with h1 h2; subst h1; subst h2
    exact ⟨(by intro t ht; cases ht), hft⟩
  · rename_i hno
    simp only [Bool.or_eq_true, decide_eq_true_eq, not_or] at hno
    have hB : TopB st := by
      rcases hpre with h | h | h
      · exact h
      · exact absurd h hno.1
      · exact absurd h hno.2
    split at h
    · cases h
    · injection h with h; injection h with h1 h2; subst h1; subst h2
      exact ⟨(by intro t ht; cases ht), hft⟩
    · rename_i group e hm
      have hge := matchBranches_ge _ _ _ _ _ _ _ hm
      have hbd : e ≤ st.max := by rw [hft.line.max]; exact matchBranches_le _ _ _ _ _ _ _ (by rw [← hft.line.max]; exact hft.line.pos) hm
      exact pseudoAction_ft lines { st with pos := e } st' group st.pos e tok hI.shape hB
        ⟨hft.line.one, hft.line.cur, hft.line.max, hbd⟩ hge rfl h

/-- the scan loop of one line: FSTRING_MIDDLE tokens are source slices -/
theorem scanLine_ft (lines : List (List Nat)) (E : Env) (P : Pats) (hP : PseudoProgress P) (hF : FstrLen P) (hE : FstrEnds P) :
    ∀ (fuel : Nat) (hw : Pos) (st st' : TState) (acc acc' : List Tok5),
      OInv hw st → FT lines st → MidOK lines acc →
      scanLine E P fuel st acc = .ok (st', acc') →
      MidOK lines acc' ∧ FT lines st' ∧ st'.pos = st'.max ∧ ∃ hw', OInv hw' st' := by
  intro fuel
  induction fuel with
  | zero => intro hw st st' acc acc' _ _ _ h; simp [scanLine] at h
  | succ fuel ih =>
    intro hw st st' acc acc' hI hft hacc h
    have hmax := hft.line.max
    have hle := hft.line.pos
    unfold scanLine at h
    split at h
    · rename_i hlt
      split at h
      · cases h
      · rename_i ts1 st1 h1
        obtain ⟨a1, b1⟩ := handleEndProgs_adv E P st st1 ts1 hmax hle h1
        have hmax1 : st1.max = st1.line.size := by rw [a1.max, a1.line]; exact hmax
        obtain ⟨hw1, _, i1, post1⟩ := handleEndProgs_ord E P hF hw st st1 ts1 hle hI h1
        obtain ⟨m1, f1⟩ := handleEndProgs_ft lines E P hF hE hw st st1 ts1 hI hft h1
        have hpre : TopB st1 ∨ st1.pos = st1.max ∨ st1.inMiddle = true := by
          rcases post1 with x | x | x
          · exact Or.inl x
          · exact Or.inr (Or.inl x)
          · exact Or.inr (Or.inr x.2)
        split at h
        · cases h
        · rename_i t st2 h2
          obtain ⟨hw2, _, i2, _⟩ := nextPseudoMatches_ord E P hP hw1 st1 st2 (some t) hmax1 b1 i1 hpre h2
          obtain ⟨ty2, f2⟩ := nextPseudoMatches_ft lines E P hw1 st1 st2 (some t) i1 f1 hpre h2
          exact ih hw2 st2 st' _ acc' i2 f2 (MidOK.emit_then (MidOK.append hacc m1) (ty2 t rfl)) h
        · rename_i st2 h2
          obtain ⟨a2, b2, _⟩ := nextPseudo_adv E P hP st1 st2 none hmax1 b1 h2
          obtain ⟨hw2, _, i2, s2⟩ := nextPseudoMatches_ord E P hP hw1 st1 st2 none hmax1 b1 i1 hpre h2
          obtain ⟨_, f2⟩ := nextPseudoMatches_ft lines E P hw1 st1 st2 none i1 f1 hpre h2
          simp only [] at h
          split at h
          · rename_i heq
            have hp1 : st1.pos = st.pos := by have := a1.ge; have := a2.ge; omega
            have hB1 : TopB st1 := by
              rcases post1 with x | x | x
              · exact x
              · have := a1.max; omega
              · omega
            have hB2 : TopB st2 := by
              intro q more hq
              rw [s2 rfl (by omega)] at hq
              exact hB1 q more hq
            refine ih ⟨st2.lnum, st2.pos + 1⟩ { st2 with pos := st2.pos + 1 } st' _ acc' ?_ ?_ ?_ h
            · exact OInv.same i2.shape hB2 rfl (Pos.le_refl' _)
            · exact FT.same ⟨f2.line.one, f2.line.cur, f2.line.max, by show st2.pos + 1 ≤ st2.max; have := a1.max; have := a2.max; omega⟩ hB2 rfl
            · exact MidOK.emit_then (MidOK.append hacc m1) (by intro hf; simp [FsTy] at hf)
          · exact ih hw2 st2 st' _ acc' i2 f2 (MidOK.append hacc m1) h
    · rename_i hnlt
      injection h with h; injection h with h1 h2; subst h1; subst h2
      exact ⟨hacc, hft, by omega, hw, hI⟩


def NoMid (ts : List Tok5) : Prop := ∀ t ∈ ts, ¬ FsTy t

theorem dedents_noMid (col lnum pos : Nat) (line : List Nat) : ∀ (fuel : Nat) (ind : List Nat) (acc : List Tok5) (ind' : List Nat) (acc' : List Tok5),
    NoMid acc → dedents col lnum pos line fuel ind acc = .ok (ind', acc') → NoMid acc'
  | 0, ind, acc, ind', acc', ha, h => by
    simp only [dedents] at h; injection h with h; injection h with _ h2; subst h2; exact ha
  | fuel + 1, ind, acc, ind', acc', ha, h => by
    simp only [dedents] at h
    split at h
    · injection h with h; injection h with _ h2; subst h2; exact ha
    · split at h
      · split at h
        · cases h
        · refine dedents_noMid col lnum pos line fuel _ _ ind' acc' ?_ h
          intro t ht
          rcases List.mem_append.mp ht with h1 | h1
          · exact ha t h1
          · simp only [List.mem_singleton] at h1; subst h1; simp [FsTy]
      · injection h with h; injection h with _ h2; subst h2; exact ha

theorem nextStatement_noMid (P : Pats) (st st' : TState) (ts : List Tok5) (a : StmtAction)
    (h : nextStatement P st = .ok (ts, st', a)) : NoMid ts := by
  unfold nextStatement at h
  split at h
  · injection h with h; injection h with h0 h; subst h0
    intro t ht; cases ht
  · simp only [] at h
    split at h
    · injection h with h; injection h with h0 h; subst h0
      intro t ht; cases ht
    · split at h
      · split at h
        · injection h with h; injection h with h0 h; subst h0
          intro t ht
          simp only [List.mem_cons, List.mem_singleton, List.not_mem_nil, or_false] at ht
          rcases ht with ht | ht <;> (subst ht; simp [FsTy])
        · injection h with h; injection h with h0 h; subst h0
          intro t ht
          simp only [List.mem_singleton] at ht
          subst ht; simp [FsTy]
      · split at h
        · cases h
        · rename_i ind2 toks2 hd
          injection h with h; injection h with h0 h; subst h0
          refine dedents_noMid _ _ _ _ _ _ _ _ _ ?_ hd
          intro t ht
          split at ht
          · simp only [List.mem_singleton] at ht; subst ht; simp [FsTy]
          · cases ht

theorem nextEndTokens_noMid (ll : List Nat) (lc : Bool) (st : TState) : NoMid (nextEndTokens ll lc st) := by
  unfold nextEndTokens
  intro t ht
  simp only [List.mem_append, List.mem_map, List.mem_singleton] at ht
  rcases ht with (ht | ht) | ht
  · split at ht
    · split at ht
      · simp only [List.mem_singleton] at ht; subst ht; simp [FsTy]
      · cases ht
    · cases ht
  · obtain ⟨_, _, rfl⟩ := ht; simp [FsTy]
  · subst ht; simp [FsTy]

/-- between two lines: a literal-accumulating prog on top holds the source up to the start of the next line -/
def BT (lines : List (List Nat)) (st : TState) : Prop :=
  ∀ p rest, st.endProgs = p :: rest → isB p = false → TextAt lines p ⟨st.lnum + 1, 0⟩

theorem bt_of_ft (lines : List (List Nat)) (st : TState) (hft : FT lines st) (hend : st.pos = st.max) : BT lines st := by
  intro p rest hp hb
  obtain ⟨htxt, hoff⟩ := hft.top p rest hp hb
  have he := off_line_end lines st.lnum st.line.toList hft.line.one hft.line.cur
  simp only [Array.length_toList] at he
  have hpos : st.pos = st.line.size := by rw [hend, hft.line.max]
  simp only [cur] at htxt hoff
  rw [hpos] at htxt hoff
  refine ⟨?_, by rw [← he]; exact hoff⟩
  rw [htxt]; unfold srcText; rw [he]

theorem ft_of_bt (lines : List (List Nat)) (st : TState) (l : List Nat) (hb : BT lines st)
    (hl : lines[st.lnum]? = some l) : FT lines (st.moveNextLine l) := by
  refine ⟨⟨by simp [TState.moveNextLine], ?_, by simp [TState.moveNextLine], by simp [TState.moveNextLine]⟩, ?_⟩
  · simp only [TState.moveNextLine, Nat.add_sub_cancel, List.toList_toArray]; exact hl
  · intro p rest hp hm
    exact hb p rest hp hm

theorem lineHead_ft (lines : List (List Nat)) (E : Env) (P : Pats) (hF : FstrLen P) (hE : FstrEnds P) (hw : Pos) (st s : TState) (ts : List Tok5) (cont brk : Bool)
    (hI : OInv hw st) (hft : FT lines st) (h : lineHead E P st = .ok (s, ts, cont, brk)) :
    MidOK lines ts ∧ (cont = false → brk = false → FT lines s) ∧ (cont = true → s.endProgs = []) := by
  have hspec := lineHead_spec E P st s ts cont brk hft.line.max hft.line.pos h
  have hlnum := lineHead_lnum E P st s ts cont brk hft.line.max hft.line.pos h
  have hline := lineHead_line E P st s ts cont brk hft.line.max hft.line.pos h
  have mkLine : cont = false → brk = false → LineOK lines s := fun hc hb =>
    ⟨by rw [hlnum]; exact hft.line.one, by rw [hlnum, hline]; exact hft.line.cur, hspec.1, hspec.2 hc hb⟩
  unfold lineHead at h
  split at h
  · split at h
    · cases h
    · rename_i ts0 s0 h0
      injection h with h; injection h with h1 h; injection h with h2 h; injection h with h3 h4
      subst h1; subst h2; subst h3; subst h4
      have hft0 : FT lines { st with continued := false } := ⟨⟨hft.line.one, hft.line.cur, hft.line.max, hft.line.pos⟩, hft.top⟩
      obtain ⟨a, b⟩ := handleEndProgs_ft lines E P hF hE hw _ _ _ (show OInv hw { st with continued := false } from hI) hft0 h0
      exact ⟨a, fun _ _ => b, (by intro hc; cases hc)⟩
  · rename_i hemp
    have hnil : st.endProgs = [] := by simpa using hemp
    split at h
    · split at h
      · cases h
      · rename_i ts0 s0 h0
        injection h with h; injection h with h1 h; injection h with h2 h; injection h with h3 h4
        subst h1; subst h2; subst h3; subst h4
        obtain ⟨_, hep⟩ := nextStatement_noString P st _ _ _ h0
        exact ⟨MidOK.of_none (nextStatement_noMid P st _ _ _ h0), (by intro hc; cases hc), fun _ => by rw [hep, hnil]⟩
      · rename_i ts0 s0 h0
        injection h with h; injection h with h1 h; injection h with h2 h; injection h with h3 h4
        subst h1; subst h2; subst h3; subst h4
        exact ⟨MidOK.of_none (nextStatement_noMid P st _ _ _ h0), (by intro _ hb; cases hb), (by intro hc; cases hc)⟩
      · rename_i ts0 s0 h0
        injection h with h; injection h with h1 h; injection h with h2 h; injection h with h3 h4
        subst h1; subst h2; subst h3; subst h4
        obtain ⟨_, hep⟩ := nextStatement_noString P st _ _ _ h0
        refine ⟨MidOK.of_none (nextStatement_noMid P st _ _ _ h0), fun hc hb => ⟨mkLine hc hb, ?_⟩, (by intro hc; cases hc)⟩
        intro p rest hp; rw [hep, hnil] at hp; cases hp
    · split at h
      · cases h
      · injection h with h; injection h with h1 h; injection h with h2 h; injection h with h3 h4
        subst h1; subst h2; subst h3; subst h4
        refine ⟨MidOK.nil _, fun hc hb => ⟨mkLine hc hb, ?_⟩, (by intro hc; cases hc)⟩
        intro p rest hp; simp only [hnil] at hp; cases hp

/-- the whole line loop: every FSTRING_MIDDLE token it ever emits is the source slice between its coordinates -/
theorem tokenizeLines_ft (lines : List (List Nat)) (E : Env) (P : Pats) (hP : PseudoProgress P) (hF : FstrLen P) (hE : FstrEnds P) :
    ∀ (fuel : Nat) (rest : List (List Nat)) (st : TState) (acc out : List Tok5) (hw : Pos),
      st.max = st.line.size → OI hw st.endProgs ⟨st.lnum, st.max⟩ → BT lines st → rest = lines.drop st.lnum → MidOK lines acc →
      tokenizeLines E P fuel rest st acc = .ok out → MidOK lines out := by
  intro fuel
  induction fuel with
  | zero => intro rest st acc out hw _ _ _ _ _ h; simp [tokenizeLines] at h
  | succ fuel ih =>
    intro rest st acc out hw hmax hI hb hrest hacc h
    unfold tokenizeLines at h
    split at h
    · cases h
    · rename_i s ts cont brk hh
      have hspec := lineHead_spec E P _ s ts cont brk (moveNextLine_max st _) (by simp) hh
      have hI0 : OInv hw (st.moveNextLine (rest.headD [])) := OI.mono hI (Pos.le_next _ _ _)
      obtain ⟨hl, hw', _, hbrk, hcont, hpro⟩ := lineHead_ord E P hF hw _ s ts cont brk (moveNextLine_max st _) rfl hI0 hh
      have hl' : s.lnum = st.lnum + 1 := hl
      split at h
      · rename_i hbk
        injection h with h
        subst h
        rw [hbrk hbk, List.append_nil]
        exact MidOK.append hacc (MidOK.of_none (nextEndTokens_noMid _ _ _))
      · rename_i hnb
        have hnb' : brk = false := by simpa using hnb
        -- not `break`: the input was not exhausted
        cases hr : rest with
        | nil =>
          rw [hr] at hh
          have := lineHead_eof E P _ s ts cont brk (by simp [TState.moveNextLine]) (by simp [TState.moveNextLine]) hh
          rw [this] at hnb'; cases hnb'
        | cons l rest' =>
          rw [hr] at hh h
          simp only [List.tail_cons] at h
          simp only [List.headD_cons] at hh
          have hll : lines[st.lnum]? = some l := by
            have : (lines.drop st.lnum)[0]? = some l := by rw [← hrest, hr]; rfl
            simpa [List.getElem?_drop] using this
          have hrest' : rest' = lines.drop (st.lnum + 1) := by
            have := congrArg List.tail (hrest.symm.trans hr)
            simp only [List.tail_drop, List.tail_cons] at this
            exact this.symm
          have hft0 := ft_of_bt lines st l hb hll
          have hI0' : OInv hw (st.moveNextLine l) := OI.mono hI (Pos.le_next _ _ _)
          obtain ⟨hts, hgo, hcnil⟩ := lineHead_ft lines E P hF hE hw _ s ts cont brk hI0' hft0 hh
          split at h
          · rename_i hc
            have hbs : BT lines s := by intro p r hp; rw [hcnil hc] at hp; cases hp
            exact ih rest' s _ out hw' hspec.1 (hcont hnb' hc) hbs (by rw [hl']; exact hrest') (MidOK.append hacc hts) h
          · rename_i hnc
            have hnc' : cont = false := by simpa using hnc
            split at h
            · cases h
            · rename_i s2 acc2 hs
              have hfts := hgo hnc' hnb'
              obtain ⟨hacc2, hft2, hend2, hw2, i2⟩ := scanLine_ft lines E P hP hF hE _ hw' s s2 _ acc2 (hpro hnb' hnc') hfts (MidOK.append hacc hts) hs
              obtain ⟨hk1, _⟩ := scanLine_keeps E P hP _ s _ s2 acc2 hfts.line.max hfts.line.pos hs
              exact ih rest' s2 _ out hw2 hft2.line.max (OI.mono i2 (cur_le_col s2 s2.max hft2.line.pos)) (bt_of_ft lines s2 hft2 hend2)
                (by rw [hk1, hl']; exact hrest') hacc2 h

end XV.Tz
