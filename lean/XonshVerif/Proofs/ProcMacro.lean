/-
  C07 (subprocess macros): `cmd! rest` passes the stripped source text of `rest` whenever the pieces the rule collected tile
  the line without gaps (what the token source delivers in proc-macro mode: WS tokens are kept); what is NOT a token - a
  line break, a comment, a continuation, a non-ASCII blank - is lost (KF-C07-proc-macro-dropped-blanks).
-/
import XonshVerif.Model.ProcMacro
import XonshVerif.Proofs.Macro
namespace XV.ProcMacro
open XV XV.Macro

/-- **proc_macro_arg_is_stripped_source.**  If the collected tokens tile the source line without gaps, the subprocess
    macro's argument is exactly the source text from the start of the first to the end of the last token, stripped. -/
theorem proc_macro_arg_is_stripped_source (isSp : Nat → Bool) (line : List Nat) (first : Tok) (rest : List Tok)
    (h : Contig line (first :: rest)) :
    procMacroArg isSp ((first :: rest).map (·.str)) =
      pyStrip isSp ((line.drop first.start.col).take ((((first :: rest).getLast?).getD first).stop.col - first.start.col)) := by
  unfold procMacroArg
  rw [(concat_is_source_slice line first rest h).1]

/-- stripping removes nothing but blanks at the two ends: the result is a contiguous part of the text -/
theorem pyStrip_infix (isSp : Nat → Bool) (l : List Nat) : ∃ a b, l = a ++ pyStrip isSp l ++ b ∧ a.all isSp = true ∧ b.all isSp = true := by
  unfold pyStrip
  refine ⟨l.takeWhile isSp, (((l.dropWhile isSp).reverse.takeWhile isSp)).reverse, ?_, ?_, ?_⟩
  · have h1 : l = l.takeWhile isSp ++ l.dropWhile isSp := (List.takeWhile_append_dropWhile).symm
    have h2 : (l.dropWhile isSp).reverse = (l.dropWhile isSp).reverse.takeWhile isSp ++ (l.dropWhile isSp).reverse.dropWhile isSp :=
      (List.takeWhile_append_dropWhile).symm
    have h3 : l.dropWhile isSp = ((l.dropWhile isSp).reverse.dropWhile isSp).reverse ++ ((l.dropWhile isSp).reverse.takeWhile isSp).reverse := by
      have := congrArg List.reverse h2
      rw [List.reverse_reverse, List.reverse_append] at this
      exact this
    conv => lhs; rw [h1, h3]
    simp [List.append_assoc]
  · exact List.all_takeWhile
  · rw [List.all_reverse]; exact List.all_takeWhile

/-- Non-vacuity: `  a  b ` -> `a  b` -/
example : procMacroArg (fun c => c = 32) [[32, 32], [97], [32, 32], [98], [32]] = [97, 32, 32, 98] := by decide

end XV.ProcMacro
