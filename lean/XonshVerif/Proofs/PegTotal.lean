/-
  C03 (parser half) — soundness of the well-formedness checker `wfCert`: a program that passes it
  terminates on EVERY token list: there is a fuel with which neither pass of `Parser.parse` runs out.

  Shape of the proof.  Lexicographic induction on
    (tokens left, left-recursion leaders not yet in the cache at the current position, rank of the rule),
  with, inside one rule frame, structural inductions over its alternatives and items and inductions on the
  tokens left for the `repeated` / `gathered` / seed-growing loops.  Invariant: every cache entry ends no
  earlier than it starts, strictly later for a success of a non-nullable rule; the cache only grows.
-/
import XonshVerif.Model.PegWf
import XonshVerif.Proofs.PegMono
import XonshVerif.Proofs.PegVerbose
namespace XV.Peg
set_option linter.unusedSimpArgs false

section
variable (prog : Prog) (W : WfW) (w : Array RTok)

def EntryOK (p id : Nat) : Res → Prop
  | .ok e => p ≤ e ∧ e ≤ w.size ∧ (W.nullable id = false → p < e)
  | .fail e => p ≤ e ∧ e ≤ w.size
  | _ => False

structure Inv (s : St) : Prop where
  pos_le : s.pos ≤ w.size
  size : s.cache.size = w.size + 1
  entries : ∀ p id r, cacheGet s.cache p id = some r → EntryOK W w p id r

/-- the cache only grows -/
def DomLe (s s' : St) : Prop := ∀ p id, cacheGet s.cache p id ≠ none → cacheGet s'.cache p id ≠ none

structure Post (s s' : St) : Prop where
  inv : Inv W w s'
  pos : s.pos ≤ s'.pos
  dom : DomLe s s'

/-- number of left-recursion leaders without a cache entry at position `p` -/
def Ucount (s : St) (p : Nat) : Nat :=
  (List.range prog.size).countP (fun id => W.lr id && (cacheGet s.cache p id).isNone)

/-- the same, not counting the rule about to be called if it is such a leader -/
def Ueff (s : St) (id : Nat) : Nat :=
  if (W.lr id && (cacheGet s.cache s.pos id).isNone) = true then Ucount prog W s s.pos - 1 else Ucount prog W s s.pos

end

variable {prog : Prog} {W : WfW} {w : Array RTok}

theorem isAbort_ok (e : Nat) : (Res.ok e).isAbort = false := rfl
theorem isAbort_fail (e : Nat) : (Res.fail e).isAbort = false := rfl
theorem isAbort_raised : Res.raised.isAbort = true := rfl
theorem isAbort_undecided : Res.undecided.isAbort = true := rfl
theorem isAbort_tokErr : Res.tokErr.isAbort = true := rfl

theorem DomLe.refl (s : St) : DomLe s s := fun _ _ h => h
theorem DomLe.trans {a b c : St} (h1 : DomLe a b) (h2 : DomLe b c) : DomLe a c := fun p id h => h2 p id (h1 p id h)
theorem DomLe.of_cache_eq {a b : St} (h : b.cache = a.cache) : DomLe a b := by intro p id hh; rw [h]; exact hh
theorem DomLe.put (s s' : St) (p i : Nat) (r : Res) (h : s'.cache = cachePut s.cache p i r) : DomLe s s' := by
  intro p' i' hh
  rw [h, cacheGet_cachePut]
  split
  · simp
  · exact hh

theorem Post.refl {s : St} (h : Inv W w s) : Post W w s s := ⟨h, Nat.le_refl _, DomLe.refl s⟩
theorem Post.trans {a b c : St} (h1 : Post W w a b) (h2 : Post W w b c) : Post W w a c :=
  ⟨h2.inv, Nat.le_trans h1.pos h2.pos, h1.dom.trans h2.dom⟩

theorem Inv.of_eq {s s' : St} (h : Inv W w s) (hc : s'.cache = s.cache) (hp : s'.pos ≤ w.size) : Inv W w s' :=
  ⟨hp, by rw [hc]; exact h.size, by rw [hc]; exact h.entries⟩

theorem Inv.reset {s : St} (h : Inv W w s) (m : Nat) (hm : m ≤ w.size) : Inv W w (s.reset m) := h.of_eq rfl hm

theorem Inv.put {s s' : St} (h : Inv W w s) (p i : Nat) (r : Res) (hc : s'.cache = cachePut s.cache p i r) (hp : s'.pos ≤ w.size)
    (hr : EntryOK W w p i r) : Inv W w s' := by
  refine ⟨hp, ?_, ?_⟩
  · rw [hc]; unfold cachePut; split
    · rw [Array.size_set]; exact h.size
    · exact h.size
  · intro p' i' r' hg
    rw [hc, cacheGet_cachePut] at hg
    split at hg
    · rename_i hcnd
      injection hg with hg
      rw [← hg, hcnd.1, hcnd.2.1]; exact hr
    · exact h.entries p' i' r' hg

theorem Ucount_mono {s s' : St} (h : DomLe s s') (p : Nat) : Ucount prog W s' p ≤ Ucount prog W s p := by
  unfold Ucount
  apply List.countP_mono_left
  intro id _ hid
  simp only [Bool.and_eq_true, Option.isNone_iff_eq_none] at hid ⊢
  refine ⟨hid.1, ?_⟩
  cases hcg : cacheGet s.cache p id with
  | none => rfl
  | some x => exact absurd hid.2 (h p id (by simp [hcg]))

theorem countP_lt_of {α} (l : List α) (p q : α → Bool) (himp : ∀ x ∈ l, p x = true → q x = true) (a : α) (ha : a ∈ l) (hq : q a = true) (hp : p a = false) :
    l.countP p < l.countP q := by
  induction l with
  | nil => cases ha
  | cons x xs ih =>
    rw [List.countP_cons, List.countP_cons]
    rcases List.mem_cons.mp ha with rfl | hmem
    · have := List.countP_mono_left (l := xs) (fun y hy => himp y (List.mem_cons_of_mem _ hy))
      simp only [hp, hq, if_true]
      simp
      omega
    · have := ih (fun y hy => himp y (List.mem_cons_of_mem _ hy)) hmem
      by_cases hpx : p x = true
      · have := himp x (List.mem_cons_self) hpx
        simp [hpx, this]; omega
      · by_cases hqx : q x = true <;> simp [hpx, hqx] <;> omega

/-- storing an entry for a leader that had none lowers the count at that position -/
theorem Ucount_put_lt {s s' : St} (p i : Nat) (r : Res) (hc : s'.cache = cachePut s.cache p i r) (hsz : p < s.cache.size)
    (hi : i < prog.size) (hlr : W.lr i = true) (hnone : cacheGet s.cache p i = none) :
    Ucount prog W s' p < Ucount prog W s p := by
  unfold Ucount
  apply countP_lt_of _ _ _ _ i (List.mem_range.mpr hi)
  · simp [hlr, hnone]
  · rw [hc, cacheGet_cachePut]; simp [hsz]
  · intro id _ hid
    simp only [Bool.and_eq_true, Option.isNone_iff_eq_none] at hid ⊢
    refine ⟨hid.1, ?_⟩
    cases hcg : cacheGet s.cache p id with
    | none => rfl
    | some x => exact absurd hid.2 (DomLe.put s s' p i r hc p id (by simp [hcg]))


/-- a verdict reached with fuel `n` is reached with every larger fuel (generic form of `Mono`) -/
theorem stableFuel {α : Type} (f : Nat → α) (oof : α → Prop) (hmono : ∀ n, oof (f n) ∨ f (n+1) = f n) (n : Nat) (h : ¬ oof (f n)) :
    ∀ m, n ≤ m → f m = f n := by
  intro m hm
  induction m with
  | zero => have : n = 0 := by omega
            rw [this]
  | succ m ih =>
    by_cases hnm : n = m + 1
    · rw [hnm]
    · have hle : n ≤ m := by omega
      rcases hmono m with h' | h'
      · rw [ih hle] at h'; exact absurd h' h
      · rw [h', ih hle]

section
variable (W : WfW) (w : Array RTok)
/-- a call terminates (with some fuel), re-establishes the invariant, does not move left, and moves right when it
    succeeds and `nn` says it must consume -/
def Term (s : St) (f : Nat → Res × St) (nn : Bool) : Prop :=
  ∃ n, (f n).1 ≠ .outOfFuel ∧ Post W w s (f n).2 ∧ (nn = true → (f n).1.isOk = true → s.pos < (f n).2.pos)
end

theorem Term.stable {s : St} {f : Nat → Res × St} {nn : Bool} (hmono : ∀ n, Le (f n) (f (n+1))) (h : Term W w s f nn) :
    ∃ n, (∀ m, n ≤ m → f m = f n) ∧ (f n).1 ≠ .outOfFuel ∧ Post W w s (f n).2 ∧ (nn = true → (f n).1.isOk = true → s.pos < (f n).2.pos) := by
  obtain ⟨n, h1, h2, h3⟩ := h
  exact ⟨n, stableFuel f (fun x => x.1 = .outOfFuel) hmono n h1, h1, h2, h3⟩

theorem leaf_facts (test : RTok → Bool) (s : St) (hinv : Inv W w s) :
    (leaf w test s).1 ≠ .outOfFuel ∧ Post W w s (leaf w test s).2 ∧ ((leaf w test s).1.isOk = true → s.pos < (leaf w test s).2.pos) := by
  unfold leaf peekTok
  cases hw : w[s.pos]? with
  | none => simp only []; exact ⟨by simp, Post.refl hinv, by simp [Res.isOk]⟩
  | some t =>
    simp only []
    have hlt : s.pos < w.size := by
      rcases Nat.lt_or_ge s.pos w.size with h | h
      · exact h
      · rw [Array.getElem?_eq_none h] at hw; cases hw
    by_cases ht : test t = true
    · simp only [ht, if_true]
      refine ⟨by simp, ⟨hinv.of_eq rfl (by simp; omega), by simp, DomLe.of_cache_eq rfl⟩, by simp⟩
    · simp only [ht, Bool.false_eq_true, if_false]
      exact ⟨by simp, ⟨hinv.of_eq rfl hinv.pos_le, by simp, DomLe.of_cache_eq rfl⟩, by simp [Res.isOk]⟩

theorem Term.of_const {s : St} {f : Nat → Res × St} {nn : Bool} (n : Nat)
    (h : (f n).1 ≠ .outOfFuel ∧ Post W w s (f n).2 ∧ ((f n).1.isOk = true → s.pos < (f n).2.pos)) : Term W w s f nn :=
  ⟨n, h.1, h.2.1, fun _ => h.2.2⟩

/-- a rule whose result for this position is already in the cache returns at once -/
theorem rule_hit_term (id : Nat) (s : St) (hinv : Inv W w s) (r : Rule) (hr : prog[id]? = some r) (hd : r.deco = .memo ∨ r.deco = .leftrec)
    (res : Res) (hc : cacheGet s.cache s.pos id = some res) : Term W w s (fun n => execRule prog w n id s) (!W.nullable id) := by
  have he := hinv.entries s.pos id res hc
  refine ⟨1, ?_⟩
  simp only []
  rw [execRule]
  simp only [hr]
  rcases hd with hd | hd <;> simp only [hd, hc]
  all_goals
    cases res with
    | ok e =>
      simp only [EntryOK] at he
      refine ⟨by simp, ⟨hinv.reset e he.2.1, he.1, DomLe.of_cache_eq rfl⟩, ?_⟩
      intro hnn _
      have : W.nullable id = false := by simpa using hnn
      exact he.2.2 this
    | fail e =>
      simp only [EntryOK] at he
      first
        | exact ⟨by simp, ⟨hinv.reset e he.2, he.1, DomLe.of_cache_eq rfl⟩, by simp [Res.isOk]⟩
        | (by_cases hv : s.verbose = true
           · simp only [hv, if_true]; exact ⟨by simp, Post.refl hinv, by simp [Res.isOk]⟩
           · simp only [hv, Bool.false_eq_true, if_false]; exact ⟨by simp, ⟨hinv.reset e he.2, he.1, DomLe.of_cache_eq rfl⟩, by simp [Res.isOk]⟩)
    | _ => exact absurd he (by simp [EntryOK])


section
variable (prog : Prog) (W : WfW) (w : Array RTok)
/-- what the induction hypothesis provides inside the frame of a rule entered with `rem` tokens left, `u` uncached
    leaders and rank `rk`: every rule call that is smaller in the lexicographic order terminates -/
def CalleeOK (rem u rk : Nat) : Prop :=
  ∀ id s, Inv W w s →
    (w.size - s.pos < rem ∨ (w.size - s.pos ≤ rem ∧ (Ueff prog W s id < u ∨ (Ueff prog W s id ≤ u ∧ W.rank id < rk)))) →
    Term W w s (fun n => execRule prog w n id s) (!W.nullable id)

/-- a state inside the frame of a rule entered at `mark` -/
def InFrame (mark u : Nat) (s : St) : Prop := Inv W w s ∧ mark ≤ s.pos ∧ Ucount prog W s mark ≤ u
end

theorem InFrame.post {mark u : Nat} {s s' : St} (h : InFrame prog W w mark u s) (hp : Post W w s s') : InFrame prog W w mark u s' :=
  ⟨hp.inv, Nat.le_trans h.2.1 hp.pos, Nat.le_trans (Ucount_mono hp.dom mark) h.2.2⟩

theorem Ucount_pos (s : St) (p id : Nat) (hi : id < prog.size) (hlr : W.lr id = true) (hnone : cacheGet s.cache p id = none) :
    0 < Ucount prog W s p := by
  unfold Ucount
  rw [List.countP_pos_iff]
  exact ⟨id, List.mem_range.mpr hi, by simp [hlr, hnone]⟩

theorem lt_size_of_some {α} (a : Array α) (i : Nat) (x : α) (h : a[i]? = some x) : i < a.size := by
  rcases Nat.lt_or_ge i a.size with h' | h'
  · exact h'
  · rw [Array.getElem?_eq_none h'] at h; cases h

theorem Post.reset_self {s s' : St} (hs : Inv W w s) (h : Post W w s s') : Post W w s (s'.reset s.pos) :=
  ⟨h.inv.reset s.pos hs.pos_le, Nat.le_refl _, h.dom⟩

theorem Post.of_eq {s s0 s1 : St} (h : Post W w s s0) (hc : s1.cache = s0.cache) (hp : s1.pos = s0.pos) : Post W w s s1 :=
  ⟨h.inv.of_eq hc (by rw [hp]; exact h.inv.pos_le), by rw [hp]; exact h.pos, fun p id hh => by rw [hc]; exact h.dom p id hh⟩

theorem bodyEntry_facts (wo ul : Bool) (s sB : St) (h : bodyEntry w wo ul s = some sB) : sB.pos = s.pos ∧ sB.cache = s.cache := by
  unfold bodyEntry at h
  simp only [] at h
  cases ul with
  | false =>
    simp only [Bool.false_eq_true, if_false] at h
    injection h with h; subst h
    cases wo <;> simp
  | true =>
    simp only [if_true] at h
    unfold peekTok at h
    cases hw : w[(if wo = true then { s with invalid := false } else s).pos]? with
    | none => rw [hw] at h; simp at h
    | some t =>
      rw [hw] at h
      simp only [] at h
      injection h with h
      rw [← h]
      cases wo <;> simp

theorem bodyExit_facts (wo prev : Bool) (res : Res) (s1 : St) : (bodyExit wo prev res s1).pos = s1.pos ∧ (bodyExit wo prev res s1).cache = s1.cache := by
  unfold bodyExit; split <;> simp

theorem finish_facts (id mark : Nat) (last : Option Nat) (lastmark : Nat) (s2 : St) (hinv : Inv W w s2) (hm : mark ≤ lastmark) (hle : lastmark ≤ w.size)
    (hl : last ≠ none → mark < lastmark) :
    (grow.finish id mark last lastmark s2).1 ≠ .outOfFuel ∧ Inv W w (grow.finish id mark last lastmark s2).2 ∧
      DomLe s2 (grow.finish id mark last lastmark s2).2 ∧ mark ≤ (grow.finish id mark last lastmark s2).2.pos ∧
      ((grow.finish id mark last lastmark s2).1.isOk = true → mark < (grow.finish id mark last lastmark s2).2.pos) := by
  unfold grow.finish
  cases last with
  | some e =>
    simp only []
    have hlt := hl (by simp)
    refine ⟨by simp, ?_, ?_, hm, fun _ => hlt⟩
    · exact (hinv.reset lastmark hle).put mark id (.ok lastmark) rfl hle ⟨hm, hle, fun _ => hlt⟩
    · exact DomLe.put (s2.reset lastmark) _ mark id (.ok lastmark) rfl
  | none =>
    simp only []
    refine ⟨by simp, ?_, ?_, Nat.le_refl _, by simp [Res.isOk]⟩
    · exact ((hinv.reset lastmark hle).reset mark (Nat.le_trans hm hle)).put mark id (.fail mark) rfl (Nat.le_trans hm hle) ⟨Nat.le_refl _, Nat.le_trans hm hle⟩
    · exact DomLe.put ((s2.reset lastmark).reset mark) _ mark id (.fail mark) rfl

section frame
variable (hwf : ∀ id r, prog[id]? = some r → ruleOK W id r = true)
variable (mark rid rem u rk : Nat) (hrem : w.size - mark ≤ rem) (hrk : W.rank rid ≤ rk)
variable (H : CalleeOK prog W w rem u rk)
include hwf hrem hrk H

theorem prim_term (p : Prim) (s : St) (hs : InFrame prog W w mark u s) (hp : s.pos = mark → primOK W rid p = true) :
    Term W w s (fun n => execPrim prog w n p s) (primNN W p) := by
  obtain ⟨hinv, hge, hu⟩ := hs
  cases p with
  | rule id =>
    have key : Term W w s (fun n => execRule prog w n id s) (!W.nullable id) := by
      cases hr : prog[id]? with
      | none =>
        exact Term.of_const 1 (by rw [execRule]; simp only [hr]; exact ⟨by simp, Post.refl hinv, by simp [Res.isOk]⟩)
      | some r =>
        by_cases hpos : s.pos = mark
        · have hok := hp hpos
          simp only [primOK, Bool.or_eq_true, decide_eq_true_eq] at hok
          by_cases hlr : W.lr id = true
          · cases hc : cacheGet s.cache s.pos id with
            | some res =>
              have hdeco : r.deco = .leftrec := by
                have := hwf id r hr
                simp only [ruleOK, hlr, Bool.and_eq_true, beq_iff_eq] at this
                have h1 := this.1.1
                simpa using h1.symm
              exact rule_hit_term id s hinv r hr (Or.inr hdeco) res hc
            | none =>
              apply H id s hinv
              right
              refine ⟨by rw [hpos]; exact hrem, Or.inl ?_⟩
              have hpos' := Ucount_pos (prog := prog) (W := W) s s.pos id (lt_size_of_some _ _ _ hr) hlr hc
              unfold Ueff
              simp only [hlr, hc, Option.isNone_none, Bool.and_self, if_true]
              rw [hpos] at hpos' ⊢
              omega
          · have hrank : W.rank id < W.rank rid := by
              rcases hok with h | h
              · exact absurd h hlr
              · exact h
            apply H id s hinv
            right
            refine ⟨by rw [hpos]; exact hrem, Or.inr ⟨?_, by omega⟩⟩
            unfold Ueff
            split <;> (rw [hpos]; omega)
        · apply H id s hinv
          left
          have := hinv.pos_le
          omega
    obtain ⟨n, h1, h2, h3⟩ := key
    refine ⟨n + 1, ?_, ?_, ?_⟩
    · simp only []; rw [execPrim]; exact h1
    · simp only []; rw [execPrim]; exact h2
    · simp only [primNN]; rw [execPrim]; exact h3
  | expect sid => exact Term.of_const 1 (by rw [execPrim]; exact leaf_facts _ s hinv)
  | token ty => exact Term.of_const 1 (by rw [execPrim]; exact leaf_facts _ s hinv)
  | name => exact Term.of_const 1 (by rw [execPrim]; exact leaf_facts _ s hinv)
  | keyword => exact Term.of_const 1 (by rw [execPrim]; exact leaf_facts _ s hinv)
  | softKeyword => exact Term.of_const 1 (by rw [execPrim]; exact leaf_facts _ s hinv)
  | anyToken =>
    refine Term.of_const 1 ?_
    rw [execPrim]
    cases hw : w[s.pos]? with
    | none => simp only []; exact ⟨by simp, Post.refl hinv, by simp [Res.isOk]⟩
    | some t =>
      simp only []
      have hlt := lt_size_of_some _ _ _ hw
      exact ⟨by simp, ⟨hinv.of_eq rfl (by simp; omega), by simp, DomLe.of_cache_eq rfl⟩, by simp⟩


theorem seqAlts_term (ps : List Prim) (s : St) (hs : InFrame prog W w mark u s) (hp : s.pos = mark → ps.all (primOK W rid) = true) :
    Term W w s (fun n => execSeqAlts prog w n ps s.pos s) (ps.all (primNN W)) := by
  induction ps generalizing s with
  | nil => exact Term.of_const 1 (by rw [execSeqAlts]; exact ⟨by simp, Post.refl hs.1, by simp [Res.isOk]⟩)
  | cons p ps ih =>
    have hp1 : s.pos = mark → primOK W rid p = true := fun h => by
      have := hp h; simp only [List.all_cons, Bool.and_eq_true] at this; exact this.1
    have hp2 : s.pos = mark → ps.all (primOK W rid) = true := fun h => by
      have := hp h; simp only [List.all_cons, Bool.and_eq_true] at this; exact this.2
    obtain ⟨n1, hst1, h1, hP1, hnn1⟩ := (prim_term hwf mark rid rem u rk hrem hrk H p s hs hp1).stable (fun n => (mono_all n).prim p s)
    cases hres : (execPrim prog w n1 p s).1 with
    | fail e =>
      have hs' : InFrame prog W w mark u ((execPrim prog w n1 p s).2.reset s.pos) := hs.post (hP1.reset_self hs.1)
      obtain ⟨n2, hst2, h2, hP2, hnn2⟩ := (ih _ hs' hp2).stable (fun n => (mono_all n).seqAlts ps _ _)
      refine ⟨max n1 n2 + 1, ?_⟩
      simp only []
      rw [execSeqAlts]
      simp only []
      rw [hst1 _ (Nat.le_max_left _ _), hres]
      simp only [isAbort_ok, isAbort_fail, isAbort_raised, isAbort_undecided, isAbort_tokErr, Bool.false_eq_true, if_false]
      have e2 := hst2 _ (Nat.le_max_right n1 n2)
      simp only [St.reset] at e2 ⊢
      rw [e2]
      refine ⟨h2, (hP1.reset_self hs.1).trans hP2, ?_⟩
      intro hnn hok
      simp only [List.all_cons, Bool.and_eq_true] at hnn
      exact hnn2 hnn.2 hok
    | ok e =>
      refine ⟨n1 + 1, ?_⟩
      simp only []
      rw [execSeqAlts]
      simp only []
      rw [hres]
      simp only [isAbort_ok, isAbort_fail, isAbort_raised, isAbort_undecided, isAbort_tokErr, Bool.false_eq_true, if_false]
      refine ⟨by simp, hP1, ?_⟩
      intro hnn _
      simp only [List.all_cons, Bool.and_eq_true] at hnn
      exact hnn1 hnn.1 (by rw [hres]; rfl)
    | raised =>
      refine ⟨n1 + 1, ?_⟩
      simp only []; rw [execSeqAlts]; simp only []; rw [hres]
      simp only [isAbort_ok, isAbort_fail, isAbort_raised, isAbort_undecided, isAbort_tokErr, if_true]
      exact ⟨by simp, hP1, by simp [Res.isOk]⟩
    | undecided =>
      refine ⟨n1 + 1, ?_⟩
      simp only []; rw [execSeqAlts]; simp only []; rw [hres]
      simp only [isAbort_ok, isAbort_fail, isAbort_raised, isAbort_undecided, isAbort_tokErr, if_true]
      exact ⟨by simp, hP1, by simp [Res.isOk]⟩
    | tokErr =>
      refine ⟨n1 + 1, ?_⟩
      simp only []; rw [execSeqAlts]; simp only []; rw [hres]
      simp only [isAbort_ok, isAbort_fail, isAbort_raised, isAbort_undecided, isAbort_tokErr, if_true]
      exact ⟨by simp, hP1, by simp [Res.isOk]⟩
    | outOfFuel => exact absurd hres h1

theorem repeat_term (p : Prim) (hnn : primNN W p = true) (d : Nat) : ∀ (s : St) (k : Nat), w.size - s.pos = d → InFrame prog W w mark u s →
    (s.pos = mark → primOK W rid p = true) →
    ∃ n, (execRepeat prog w n p s.pos k s).2.1 ≠ .outOfFuel ∧ Post W w s (execRepeat prog w n p s.pos k s).2.2 ∧
      ((execRepeat prog w n p s.pos k s).1 = k ∨ s.pos < (execRepeat prog w n p s.pos k s).2.2.pos) := by
  induction d using Nat.strongRecOn with
  | _ d ih =>
    intro s k hd hs hp
    obtain ⟨n1, hst1, h1, hP1, hnn1⟩ := (prim_term hwf mark rid rem u rk hrem hrk H p s hs hp).stable (fun n => (mono_all n).prim p s)
    cases hres : (execPrim prog w n1 p s).1 with
    | ok e =>
      have hadv : s.pos < (execPrim prog w n1 p s).2.pos := hnn1 hnn (by rw [hres]; rfl)
      have hle := hP1.inv.pos_le
      obtain ⟨n2, h2, hP2, hc2⟩ := ih (w.size - (execPrim prog w n1 p s).2.pos) (by omega) (execPrim prog w n1 p s).2 (k + 1) rfl (hs.post hP1)
        (fun h => by have := hs.2.1; omega)
      have hst2 := stableFuel (fun n => execRepeat prog w n p (execPrim prog w n1 p s).2.pos (k + 1) (execPrim prog w n1 p s).2)
        (fun x => x.2.1 = .outOfFuel) (fun n => (mono_all n).rep p _ _ _) n2 h2
      refine ⟨max n1 n2 + 1, ?_⟩
      rw [execRepeat]
      simp only []
      rw [hst1 _ (Nat.le_max_left _ _), hres]
      simp only [isAbort_ok, isAbort_fail, isAbort_raised, isAbort_undecided, isAbort_tokErr, Bool.false_eq_true, if_false]
      rw [hst2 _ (Nat.le_max_right n1 n2)]
      exact ⟨h2, hP1.trans hP2, Or.inr (Nat.lt_of_lt_of_le hadv hP2.pos)⟩
    | fail e =>
      refine ⟨n1 + 1, ?_⟩
      rw [execRepeat]; simp only []; rw [hres]
      simp only [isAbort_ok, isAbort_fail, isAbort_raised, isAbort_undecided, isAbort_tokErr, Bool.false_eq_true, if_false]
      exact ⟨by simp, hP1.reset_self hs.1, Or.inl trivial⟩
    | raised =>
      refine ⟨n1 + 1, ?_⟩
      rw [execRepeat]; simp only []; rw [hres]
      simp only [isAbort_ok, isAbort_fail, isAbort_raised, isAbort_undecided, isAbort_tokErr, if_true]
      exact ⟨by simp, hP1, Or.inl trivial⟩
    | undecided =>
      refine ⟨n1 + 1, ?_⟩
      rw [execRepeat]; simp only []; rw [hres]
      simp only [isAbort_ok, isAbort_fail, isAbort_raised, isAbort_undecided, isAbort_tokErr, if_true]
      exact ⟨by simp, hP1, Or.inl trivial⟩
    | tokErr =>
      refine ⟨n1 + 1, ?_⟩
      rw [execRepeat]; simp only []; rw [hres]
      simp only [isAbort_ok, isAbort_fail, isAbort_raised, isAbort_undecided, isAbort_tokErr, if_true]
      exact ⟨by simp, hP1, Or.inl trivial⟩
    | outOfFuel => exact absurd hres h1

theorem sepRepeat_term (e sp : Prim) (hnn : primNN W e = true) (d : Nat) : ∀ (s : St) (k : Nat), w.size - s.pos = d → InFrame prog W w mark u s →
    mark < s.pos →
    ∃ n, (execSepRepeat prog w n e sp s.pos k s).2.1 ≠ .outOfFuel ∧ Post W w s (execSepRepeat prog w n e sp s.pos k s).2.2 := by
  induction d using Nat.strongRecOn with
  | _ d ih =>
    intro s k hd hs hlt
    obtain ⟨n1, hst1, h1, hP1, hnn1⟩ := (prim_term hwf mark rid rem u rk hrem hrk H sp s hs (fun h => by omega)).stable (fun n => (mono_all n).prim sp s)
    cases hres : (execPrim prog w n1 sp s).1 with
    | ok x =>
      have hs1 : InFrame prog W w mark u (execPrim prog w n1 sp s).2 := hs.post hP1
      have hge1 := hP1.pos
      obtain ⟨n2, hst2, h2, hP2, hnn2⟩ := (seqAlts_term hwf mark rid rem u rk hrem hrk H [e] (execPrim prog w n1 sp s).2 hs1 (fun h => by omega)).stable
        (fun n => (mono_all n).seqAlts [e] _ _)
      cases hres2 : (execSeqAlts prog w n2 [e] (execPrim prog w n1 sp s).2.pos (execPrim prog w n1 sp s).2).1 with
      | ok y =>
        have hadv := hnn2 (by simp [hnn]) (by rw [hres2]; rfl)
        have hle := hP2.inv.pos_le
        obtain ⟨n3, h3, hP3⟩ := ih (w.size - (execSeqAlts prog w n2 [e] (execPrim prog w n1 sp s).2.pos (execPrim prog w n1 sp s).2).2.pos) (by omega)
          (execSeqAlts prog w n2 [e] (execPrim prog w n1 sp s).2.pos (execPrim prog w n1 sp s).2).2 (k + 1) rfl (hs1.post hP2) (by omega)
        have hst3 := stableFuel (fun n => execSepRepeat prog w n e sp (execSeqAlts prog w n2 [e] (execPrim prog w n1 sp s).2.pos (execPrim prog w n1 sp s).2).2.pos (k + 1)
            (execSeqAlts prog w n2 [e] (execPrim prog w n1 sp s).2.pos (execPrim prog w n1 sp s).2).2)
          (fun x => x.2.1 = .outOfFuel) (fun n => (mono_all n).sepRep e sp _ _ _) n3 h3
        refine ⟨max (max n1 n2) n3 + 1, ?_⟩
        rw [execSepRepeat]; simp only []
        rw [hst1 _ (Nat.le_trans (Nat.le_max_left n1 n2) (Nat.le_max_left _ _)), hres]
        simp only [isAbort_ok, isAbort_fail, isAbort_raised, isAbort_undecided, isAbort_tokErr, Bool.false_eq_true, if_false]
        rw [hst2 _ (Nat.le_trans (Nat.le_max_right n1 n2) (Nat.le_max_left _ _)), hres2]
        simp only [isAbort_ok, isAbort_fail, isAbort_raised, isAbort_undecided, isAbort_tokErr, Bool.false_eq_true, if_false]
        rw [hst3 _ (Nat.le_max_right _ _)]
        exact ⟨h3, (hP1.trans hP2).trans hP3⟩
      | fail y =>
        refine ⟨max n1 n2 + 1, ?_⟩
        rw [execSepRepeat]; simp only []
        rw [hst1 _ (Nat.le_max_left _ _), hres]
        simp only [isAbort_ok, isAbort_fail, isAbort_raised, isAbort_undecided, isAbort_tokErr, Bool.false_eq_true, if_false]
        rw [hst2 _ (Nat.le_max_right n1 n2), hres2]
        simp only [isAbort_ok, isAbort_fail, isAbort_raised, isAbort_undecided, isAbort_tokErr, Bool.false_eq_true, if_false]
        exact ⟨by simp, (hP1.trans hP2).reset_self hs.1⟩
      | raised =>
        refine ⟨max n1 n2 + 1, ?_⟩
        rw [execSepRepeat]; simp only []
        rw [hst1 _ (Nat.le_max_left _ _), hres]
        simp only [isAbort_ok, isAbort_fail, isAbort_raised, isAbort_undecided, isAbort_tokErr, Bool.false_eq_true, if_false]
        rw [hst2 _ (Nat.le_max_right n1 n2), hres2]
        simp only [isAbort_ok, isAbort_fail, isAbort_raised, isAbort_undecided, isAbort_tokErr, if_true]
        exact ⟨by simp, hP1.trans hP2⟩
      | undecided =>
        refine ⟨max n1 n2 + 1, ?_⟩
        rw [execSepRepeat]; simp only []
        rw [hst1 _ (Nat.le_max_left _ _), hres]
        simp only [isAbort_ok, isAbort_fail, isAbort_raised, isAbort_undecided, isAbort_tokErr, Bool.false_eq_true, if_false]
        rw [hst2 _ (Nat.le_max_right n1 n2), hres2]
        simp only [isAbort_ok, isAbort_fail, isAbort_raised, isAbort_undecided, isAbort_tokErr, if_true]
        exact ⟨by simp, hP1.trans hP2⟩
      | tokErr =>
        refine ⟨max n1 n2 + 1, ?_⟩
        rw [execSepRepeat]; simp only []
        rw [hst1 _ (Nat.le_max_left _ _), hres]
        simp only [isAbort_ok, isAbort_fail, isAbort_raised, isAbort_undecided, isAbort_tokErr, Bool.false_eq_true, if_false]
        rw [hst2 _ (Nat.le_max_right n1 n2), hres2]
        simp only [isAbort_ok, isAbort_fail, isAbort_raised, isAbort_undecided, isAbort_tokErr, if_true]
        exact ⟨by simp, hP1.trans hP2⟩
      | outOfFuel => exact absurd hres2 h2
    | fail x =>
      refine ⟨n1 + 1, ?_⟩
      rw [execSepRepeat]; simp only []; rw [hres]
      simp only [isAbort_ok, isAbort_fail, isAbort_raised, isAbort_undecided, isAbort_tokErr, Bool.false_eq_true, if_false]
      exact ⟨by simp, hP1.reset_self hs.1⟩
    | raised =>
      refine ⟨n1 + 1, ?_⟩
      rw [execSepRepeat]; simp only []; rw [hres]
      simp only [isAbort_ok, isAbort_fail, isAbort_raised, isAbort_undecided, isAbort_tokErr, if_true]
      exact ⟨by simp, hP1⟩
    | undecided =>
      refine ⟨n1 + 1, ?_⟩
      rw [execSepRepeat]; simp only []; rw [hres]
      simp only [isAbort_ok, isAbort_fail, isAbort_raised, isAbort_undecided, isAbort_tokErr, if_true]
      exact ⟨by simp, hP1⟩
    | tokErr =>
      refine ⟨n1 + 1, ?_⟩
      rw [execSepRepeat]; simp only []; rw [hres]
      simp only [isAbort_ok, isAbort_fail, isAbort_raised, isAbort_undecided, isAbort_tokErr, if_true]
      exact ⟨by simp, hP1⟩
    | outOfFuel => exact absurd hres h1

theorem item_term (it : Item) (s : St) (hs : InFrame prog W w mark u s) (hloop : itemLoopOK W it = true)
    (hfirst : s.pos = mark → itemFirstOK W rid it = true) :
    Term W w s (fun n => execItem prog w n it s) (itemNN W it) := by
  cases it with
  | call p =>
    obtain ⟨n, h1, h2, h3⟩ := prim_term hwf mark rid rem u rk hrem hrk H p s hs hfirst
    exact ⟨n + 1, by simp only []; rw [execItem]; exact h1, by simp only []; rw [execItem]; exact h2, by simp only [itemNN]; rw [execItem]; exact h3⟩
  | seqAlts ps =>
    obtain ⟨n, h1, h2, h3⟩ := seqAlts_term hwf mark rid rem u rk hrem hrk H ps s hs hfirst
    exact ⟨n + 1, by simp only []; rw [execItem]; exact h1, by simp only []; rw [execItem]; exact h2, by simp only [itemNN]; rw [execItem]; exact h3⟩
  | repeated p =>
    obtain ⟨n, h1, h2, h3⟩ := repeat_term hwf mark rid rem u rk hrem hrk H p hloop (w.size - s.pos) s 0 rfl hs hfirst
    refine ⟨n + 1, ?_⟩
    simp only []
    rw [execItem]
    simp only []
    by_cases hab : (execRepeat prog w n p s.pos 0 s).2.1.isAbort = true
    · simp only [hab, if_true]
      refine ⟨h1, h2, ?_⟩
      intro _ hok
      cases hr : (execRepeat prog w n p s.pos 0 s).2.1 <;> rw [hr] at hab hok <;> simp [Res.isAbort, Res.isOk] at hab hok
    · simp only [hab, Bool.false_eq_true, if_false]
      by_cases hz : (execRepeat prog w n p s.pos 0 s).1 = 0
      · simp only [hz, if_true]
        exact ⟨by simp, h2, by simp [Res.isOk]⟩
      · simp only [hz, if_false]
        refine ⟨by simp, h2, ?_⟩
        intro _ _
        rcases h3 with h3 | h3
        · exact absurd h3 hz
        · exact h3
  | gathered e sp =>
    have hnne : primNN W e = true := hloop
    obtain ⟨n1, hst1, h1, hP1, hnn1⟩ := (seqAlts_term hwf mark rid rem u rk hrem hrk H [e] s hs (fun h => by have := hfirst h; simpa [itemFirstOK] using this)).stable
        (fun n => (mono_all n).seqAlts [e] _ _)
    cases hres : (execSeqAlts prog w n1 [e] s.pos s).1 with
    | ok x =>
      have hadv := hnn1 (by simp [hnne]) (by rw [hres]; rfl)
      obtain ⟨n2, h2, hP2⟩ := sepRepeat_term hwf mark rid rem u rk hrem hrk H e sp hnne (w.size - (execSeqAlts prog w n1 [e] s.pos s).2.pos)
        (execSeqAlts prog w n1 [e] s.pos s).2 0 rfl (hs.post hP1) (by have := hs.2.1; omega)
      have hst2 := stableFuel (fun n => execSepRepeat prog w n e sp (execSeqAlts prog w n1 [e] s.pos s).2.pos 0 (execSeqAlts prog w n1 [e] s.pos s).2)
          (fun x => x.2.1 = .outOfFuel) (fun n => (mono_all n).sepRep e sp _ _ _) n2 h2
      refine ⟨max n1 n2 + 1, ?_⟩
      simp only []
      rw [execItem]
      simp only []
      rw [hst1 _ (Nat.le_max_left _ _), hres]
      simp only [isAbort_ok, isAbort_fail, isAbort_raised, isAbort_undecided, isAbort_tokErr, Bool.false_eq_true, if_false]
      rw [hst2 _ (Nat.le_max_right n1 n2)]
      by_cases hab : (execSepRepeat prog w n2 e sp (execSeqAlts prog w n1 [e] s.pos s).2.pos 0 (execSeqAlts prog w n1 [e] s.pos s).2).2.1.isAbort = true
      · simp only [hab, if_true]
        refine ⟨h2, hP1.trans hP2, ?_⟩
        intro _ hok
        cases hr : (execSepRepeat prog w n2 e sp (execSeqAlts prog w n1 [e] s.pos s).2.pos 0 (execSeqAlts prog w n1 [e] s.pos s).2).2.1 <;>
          rw [hr] at hab hok <;> simp [Res.isAbort, Res.isOk] at hab hok
      · simp only [hab, Bool.false_eq_true, if_false]
        exact ⟨by simp, hP1.trans hP2, fun _ _ => Nat.lt_of_lt_of_le hadv hP2.pos⟩
    | fail x =>
      refine ⟨n1 + 1, ?_⟩
      simp only []; rw [execItem]; simp only []; rw [hres]
      simp only [isAbort_ok, isAbort_fail, isAbort_raised, isAbort_undecided, isAbort_tokErr, Bool.false_eq_true, if_false]
      exact ⟨by simp, hP1.reset_self hs.1, by simp [Res.isOk]⟩
    | raised =>
      refine ⟨n1 + 1, ?_⟩
      simp only []; rw [execItem]; simp only []; rw [hres]
      simp only [isAbort_ok, isAbort_fail, isAbort_raised, isAbort_undecided, isAbort_tokErr, if_true]
      exact ⟨by simp, hP1, by simp [Res.isOk]⟩
    | undecided =>
      refine ⟨n1 + 1, ?_⟩
      simp only []; rw [execItem]; simp only []; rw [hres]
      simp only [isAbort_ok, isAbort_fail, isAbort_raised, isAbort_undecided, isAbort_tokErr, if_true]
      exact ⟨by simp, hP1, by simp [Res.isOk]⟩
    | tokErr =>
      refine ⟨n1 + 1, ?_⟩
      simp only []; rw [execItem]; simp only []; rw [hres]
      simp only [isAbort_ok, isAbort_fail, isAbort_raised, isAbort_undecided, isAbort_tokErr, if_true]
      exact ⟨by simp, hP1, by simp [Res.isOk]⟩
    | outOfFuel => exact absurd hres h1
  | posLook p =>
    obtain ⟨n, h1, h2, h3⟩ := prim_term hwf mark rid rem u rk hrem hrk H p s hs hfirst
    refine ⟨n + 1, ?_⟩
    simp only []; rw [execItem]; simp only []
    by_cases hab : (execPrim prog w n p s).1.isAbort = true
    · simp only [hab, if_true]; exact ⟨h1, h2, by simp [itemNN]⟩
    · simp only [hab, Bool.false_eq_true, if_false]
      by_cases hok : (execPrim prog w n p s).1.isOk = true
      · simp only [hok, if_true]; exact ⟨by simp, h2.reset_self hs.1, by simp [itemNN]⟩
      · simp only [hok, Bool.false_eq_true, if_false]; exact ⟨by simp, h2.reset_self hs.1, by simp [itemNN]⟩
  | negLook p =>
    obtain ⟨n, h1, h2, h3⟩ := prim_term hwf mark rid rem u rk hrem hrk H p s hs hfirst
    refine ⟨n + 1, ?_⟩
    simp only []; rw [execItem]; simp only []
    by_cases hab : (execPrim prog w n p s).1.isAbort = true
    · simp only [hab, if_true]; exact ⟨h1, h2, by simp [itemNN]⟩
    · simp only [hab, Bool.false_eq_true, if_false]
      by_cases hok : (execPrim prog w n p s).1.isOk = true
      · simp only [hok, if_true]; exact ⟨by simp, h2.reset_self hs.1, by simp [itemNN]⟩
      · simp only [hok, Bool.false_eq_true, if_false]; exact ⟨by simp, h2.reset_self hs.1, by simp [itemNN]⟩
  | forced p x =>
    obtain ⟨n, h1, h2, h3⟩ := prim_term hwf mark rid rem u rk hrem hrk H p s hs hfirst
    refine ⟨n + 1, ?_⟩
    simp only []; rw [execItem]; simp only []
    by_cases hab : (execPrim prog w n p s).1.isAbort = true
    · simp only [hab, if_true]; exact ⟨h1, h2, h3⟩
    · simp only [hab, Bool.false_eq_true, if_false]
      by_cases hok : (execPrim prog w n p s).1.isOk = true
      · simp only [hok, if_true]; exact ⟨h1, h2, fun hnn _ => h3 hnn hok⟩
      · simp only [hok, Bool.false_eq_true, if_false]; exact ⟨by simp, h2, by simp [Res.isOk]⟩
  | setCut => exact ⟨1, by simp only []; rw [execItem]; simp, by simp only []; rw [execItem]; exact Post.refl hs.1, by simp [itemNN]⟩
  | guardInvalid =>
    refine ⟨1, ?_⟩
    simp only []
    rw [execItem]
    by_cases hi : s.invalid = true
    · simp only [hi, if_true]; exact ⟨by simp, Post.refl hs.1, by simp [itemNN]⟩
    · simp only [hi, Bool.false_eq_true, if_false]; exact ⟨by simp, Post.refl hs.1, by simp [itemNN]⟩

omit hwf hrem hrk H in
theorem itemsOK_loop (its : List AltItem) (h : itemsOK W rid its = true) : its.all (fun j => itemLoopOK W j.item) = true := by
  induction its with
  | nil => rfl
  | cons it its ih =>
    simp only [itemsOK, Bool.and_eq_true] at h
    simp only [List.all_cons, Bool.and_eq_true]
    refine ⟨h.1.1, ?_⟩
    by_cases hnn : altItemNN W it = true
    · simpa [hnn] using h.2
    · simp only [hnn, Bool.false_eq_true, if_false] at h; exact ih h.2

theorem items_term (its : List AltItem) : ∀ (s : St) (cut : Bool) (oks : List Bool), InFrame prog W w mark u s →
    its.all (fun j => itemLoopOK W j.item) = true → (s.pos = mark → itemsOK W rid its = true) →
    ∃ n, (execItems prog w n its cut oks s).2.2.1 ≠ .outOfFuel ∧ Post W w s (execItems prog w n its cut oks s).2.2.2.1 ∧
      ((execItems prog w n its cut oks s).1 = true → its.any (altItemNN W) = true → s.pos < (execItems prog w n its cut oks s).2.2.2.1.pos) := by
  induction its with
  | nil =>
    intro s cut oks hs _ _
    exact ⟨1, by rw [execItems]; simp, by rw [execItems]; exact Post.refl hs.1, by simp⟩
  | cons it its ih =>
    intro s cut oks hs hl hf
    simp only [List.all_cons, Bool.and_eq_true] at hl
    have generic : ∀ item, it.item = item →
        ∃ n, (fun (x : Bool × Bool × Res × St × List Bool) => x.2.2.1 ≠ .outOfFuel ∧ Post W w s x.2.2.2.1 ∧
                (x.1 = true → (it :: its).any (altItemNN W) = true → s.pos < x.2.2.2.1.pos))
          (if (execItem prog w n item s).1.isAbort = true then (false, cut, (execItem prog w n item s).1, (execItem prog w n item s).2, oks)
           else if ((execItem prog w n item s).1.isOk || it.opt) = true then execItems prog w n its cut ((execItem prog w n item s).1.isOk :: oks) (execItem prog w n item s).2
           else (false, cut, (execItem prog w n item s).1, (execItem prog w n item s).2, oks)) := by
      intro item hit
      obtain ⟨n1, hst1, h1, hP1, hnn1⟩ := (item_term hwf mark rid rem u rk hrem hrk H item s hs (by rw [← hit]; exact hl.1)
          (fun h => by have := hf h; simp only [itemsOK, Bool.and_eq_true] at this; rw [← hit]; exact this.1.2)).stable (fun n => (mono_all n).item item s)
      by_cases hab : (execItem prog w n1 item s).1.isAbort = true
      · refine ⟨n1, ?_⟩
        simp only [hab, if_true]
        exact ⟨h1, hP1, by simp⟩
      · by_cases hgo : ((execItem prog w n1 item s).1.isOk || it.opt) = true
        · have hf' : (execItem prog w n1 item s).2.pos = mark → itemsOK W rid its = true := by
            intro hpm
            have hsm : s.pos = mark := by have := hs.2.1; have := hP1.pos; omega
            have := hf hsm
            simp only [itemsOK, Bool.and_eq_true] at this
            by_cases hnn : altItemNN W it = true
            · exfalso
              simp only [altItemNN, Bool.and_eq_true, Bool.not_eq_true'] at hnn
              have hok : (execItem prog w n1 item s).1.isOk = true := by simpa [hnn.1] using hgo
              have := hnn1 (by rw [← hit]; exact hnn.2) hok
              omega
            · simpa [hnn] using this.2
          obtain ⟨n2, h2, hP2, hc2⟩ := ih (execItem prog w n1 item s).2 cut ((execItem prog w n1 item s).1.isOk :: oks) (hs.post hP1) hl.2 hf'
          have hst2 := stableFuel (fun n => execItems prog w n its cut ((execItem prog w n1 item s).1.isOk :: oks) (execItem prog w n1 item s).2)
            (fun x => x.2.2.1 = .outOfFuel) (fun n => (mono_all n).items its _ _ _) n2 h2
          refine ⟨max n1 n2, ?_⟩
          rw [hst1 _ (Nat.le_max_left _ _)]
          simp only [hab, Bool.false_eq_true, if_false, hgo, if_true]
          rw [hst2 _ (Nat.le_max_right n1 n2)]
          refine ⟨h2, hP1.trans hP2, ?_⟩
          intro hok hany
          by_cases hnn : altItemNN W it = true
          · have hnn' := hnn
            simp only [altItemNN, Bool.and_eq_true, Bool.not_eq_true'] at hnn'
            have hok1 : (execItem prog w n1 item s).1.isOk = true := by simpa [hnn'.1] using hgo
            have := hnn1 (by rw [← hit]; exact hnn'.2) hok1
            have := hP2.pos
            omega
          · have hany' : its.any (altItemNN W) = true := by simpa [List.any_cons, hnn] using hany
            have := hc2 hok hany'
            have := hP1.pos
            omega
        · refine ⟨n1, ?_⟩
          simp only [hab, Bool.false_eq_true, if_false, hgo]
          exact ⟨h1, hP1, by simp⟩
    cases hit : it.item with
    | setCut =>
      obtain ⟨n, h1, h2, h3⟩ := ih s true (true :: oks) hs hl.2 (fun h => by
        have := hf h; simp only [itemsOK, Bool.and_eq_true, altItemNN, hit, itemNN, Bool.and_false, Bool.false_eq_true, if_false] at this; exact this.2)
      refine ⟨n + 1, ?_⟩
      rw [execItems]; simp only [hit]
      refine ⟨h1, h2, fun hok hany => h3 hok ?_⟩
      simpa [List.any_cons, altItemNN, hit, itemNN] using hany
    | guardInvalid =>
      by_cases hi : s.invalid = true
      · obtain ⟨n, h1, h2, h3⟩ := ih s cut (true :: oks) hs hl.2 (fun h => by
          have := hf h; simp only [itemsOK, Bool.and_eq_true, altItemNN, hit, itemNN, Bool.and_false, Bool.false_eq_true, if_false] at this; exact this.2)
        refine ⟨n + 1, ?_⟩
        rw [execItems]; simp only [hit, hi, if_true]
        refine ⟨h1, h2, fun hok hany => h3 hok ?_⟩
        simpa [List.any_cons, altItemNN, hit, itemNN] using hany
      · refine ⟨1, ?_⟩
        rw [execItems]; simp only [hit, hi, Bool.false_eq_true, if_false]
        exact ⟨by simp, Post.refl hs.1, by simp⟩
    | call p => obtain ⟨n, h⟩ := generic _ hit; exact ⟨n + 1, by rw [execItems]; simp only [hit]; exact h⟩
    | repeated p => obtain ⟨n, h⟩ := generic _ hit; exact ⟨n + 1, by rw [execItems]; simp only [hit]; exact h⟩
    | gathered e sp => obtain ⟨n, h⟩ := generic _ hit; exact ⟨n + 1, by rw [execItems]; simp only [hit]; exact h⟩
    | seqAlts ps => obtain ⟨n, h⟩ := generic _ hit; exact ⟨n + 1, by rw [execItems]; simp only [hit]; exact h⟩
    | posLook p => obtain ⟨n, h⟩ := generic _ hit; exact ⟨n + 1, by rw [execItems]; simp only [hit]; exact h⟩
    | negLook p => obtain ⟨n, h⟩ := generic _ hit; exact ⟨n + 1, by rw [execItems]; simp only [hit]; exact h⟩
    | forced p x => obtain ⟨n, h⟩ := generic _ hit; exact ⟨n + 1, by rw [execItems]; simp only [hit]; exact h⟩

theorem alts_term (rid0 : Nat) (as : List Alt) : ∀ (idx : Nat) (s : St), InFrame prog W w mark u s → s.pos = mark →
    as.all (fun a => itemsOK W rid a.items) = true →
    Term W w s (fun n => execAlts prog w n rid0 idx as mark s) (as.all (fun a => a.items.any (altItemNN W))) := by
  induction as with
  | nil =>
    intro idx s hs _ _
    exact ⟨1, by simp only []; rw [execAlts]; simp, by simp only []; rw [execAlts]; exact Post.refl hs.1, by simp only []; rw [execAlts]; simp [Res.isOk]⟩
  | cons a as ih =>
    intro idx s hs hpos hok
    simp only [List.all_cons, Bool.and_eq_true] at hok
    obtain ⟨n1, h1, hP1, hc1⟩ := items_term hwf mark rid rem u rk hrem hrk H a.items s false [] hs (itemsOK_loop rid a.items hok.1) (fun _ => hok.1)
    have hst1 := stableFuel (fun n => execItems prog w n a.items false [] s) (fun x => x.2.2.1 = .outOfFuel) (fun n => (mono_all n).items a.items _ _ _) n1 h1
    by_cases hab : (execItems prog w n1 a.items false [] s).2.2.1.isAbort = true
    · refine ⟨n1 + 1, ?_⟩
      simp only []; rw [execAlts]; simp only [hab, if_true]
      refine ⟨h1, hP1, ?_⟩
      intro _ hk
      cases hr : (execItems prog w n1 a.items false [] s).2.2.1 <;> rw [hr] at hab hk <;> simp [Res.isAbort, Res.isOk] at hab hk
    · by_cases hall : (execItems prog w n1 a.items false [] s).1 = true
      · refine ⟨n1 + 1, ?_⟩
        simp only []; rw [execAlts]; simp only [hab, Bool.false_eq_true, if_false, hall, if_true]
        have hadv : (a :: as).all (fun a => a.items.any (altItemNN W)) = true → s.pos < (execItems prog w n1 a.items false [] s).2.2.2.1.pos := by
          intro hnn
          simp only [List.all_cons, Bool.and_eq_true] at hnn
          exact hc1 hall hnn.1
        cases hact : a.act with
        | truthy => exact ⟨by simp, hP1.of_eq rfl rfl, fun hnn _ => hadv hnn⟩
        | none => exact ⟨by simp, hP1.of_eq rfl rfl, by simp [Res.isOk]⟩
        | raises => exact ⟨by simp, hP1.of_eq rfl rfl, by simp [Res.isOk]⟩
        | mayRaise => exact ⟨by simp, hP1.of_eq rfl rfl, fun hnn _ => hadv hnn⟩
        | gate m => exact ⟨by simp, hP1.of_eq rfl rfl, fun hnn _ => hadv hnn⟩
        | viaItem i =>
          simp only []
          split
          · exact ⟨by simp, hP1.of_eq rfl rfl, fun hnn _ => hadv hnn⟩
          · exact ⟨by simp, hP1.of_eq rfl rfl, by simp [Res.isOk]⟩
        | unknown => exact ⟨by simp, hP1.of_eq rfl rfl, by simp [Res.isOk]⟩
      · have hPr : Post W w s ((execItems prog w n1 a.items false [] s).2.2.2.1.reset mark) := by
          have := hP1.reset_self hs.1; rw [hpos] at this; exact this
        by_cases hcut : (execItems prog w n1 a.items false [] s).2.1 = true
        · refine ⟨n1 + 1, ?_⟩
          simp only []; rw [execAlts]; simp only [hab, Bool.false_eq_true, if_false, hall, hcut, if_true]
          exact ⟨by simp, hPr, by simp [Res.isOk]⟩
        · obtain ⟨n2, hst2, h2, hP2, hnn2⟩ := (ih (idx + 1) ((execItems prog w n1 a.items false [] s).2.2.2.1.reset mark) (hs.post hPr) rfl hok.2).stable
            (fun n => (mono_all n).alts rid0 _ as mark _)
          refine ⟨max n1 n2 + 1, ?_⟩
          simp only []; rw [execAlts]; simp only []
          rw [hst1 _ (Nat.le_max_left _ _)]
          simp only [hab, Bool.false_eq_true, if_false, hall, hcut]
          rw [hst2 _ (Nat.le_max_right n1 n2)]
          refine ⟨h2, hPr.trans hP2, ?_⟩
          intro hnn hk
          simp only [List.all_cons, Bool.and_eq_true] at hnn
          have := hnn2 hnn.2 hk
          change mark < _ at this
          omega

theorem body_term (rid0 : Nat) (b : Body) (s : St) (hs : InFrame prog W w mark u s) (hpos : s.pos = mark) (hok : bodyOK W rid b = true) :
    Term W w s (fun n => execBody prog w n rid0 b s) (bodyNN W b) := by
  cases b with
  | unmodelled => exact ⟨1, by simp only []; rw [execBody]; simp, by simp only []; rw [execBody]; exact Post.refl hs.1, by simp only []; rw [execBody]; simp [Res.isOk]⟩
  | seqAlts ps =>
    obtain ⟨n, h1, h2, h3⟩ := seqAlts_term hwf mark rid rem u rk hrem hrk H ps s hs (fun _ => hok)
    exact ⟨n + 1, by simp only []; rw [execBody]; exact h1, by simp only []; rw [execBody]; exact h2, by simp only [bodyNN]; rw [execBody]; exact h3⟩
  | alts as wo ul =>
    cases hb : bodyEntry w wo ul s with
    | none => exact ⟨1, by simp only []; rw [execBody]; simp [hb], by simp only []; rw [execBody]; simp only [hb]; exact Post.refl hs.1, by simp only []; rw [execBody]; simp [hb, Res.isOk]⟩
    | some sB =>
      obtain ⟨hbp, hbc⟩ := bodyEntry_facts wo ul s sB hb
      have hPB : Post W w s sB := (Post.refl hs.1).of_eq hbc hbp
      obtain ⟨n, h1, h2, h3⟩ := alts_term hwf mark rid rem u rk hrem hrk H rid0 as 0 sB (hs.post hPB) (by rw [hbp]; exact hpos) hok
      refine ⟨n + 1, ?_⟩
      simp only []; rw [execBody]; simp only [hb]
      rw [hbp, hpos]
      obtain ⟨hxp, hxc⟩ := bodyExit_facts wo s.invalid (execAlts prog w n rid0 0 as mark sB).1 (execAlts prog w n rid0 0 as mark sB).2
      refine ⟨h1, (hPB.trans h2).of_eq hxc hxp, ?_⟩
      intro hnn hk
      rw [hxp]
      have := h3 hnn hk
      simp only [] at this
      omega

theorem grow_term (id : Nat) (body : Body) (hok : bodyOK W rid body = true) (d : Nat) :
    ∀ (last : Option Nat) (lastmark : Nat) (s : St), w.size - lastmark = d → mark ≤ lastmark → lastmark ≤ w.size → (last ≠ none → mark < lastmark) →
      Inv W w s → Ucount prog W s mark ≤ u →
      ∃ n, (grow prog w n id body mark last lastmark s).1 ≠ .outOfFuel ∧ Inv W w (grow prog w n id body mark last lastmark s).2 ∧
        DomLe s (grow prog w n id body mark last lastmark s).2 ∧ mark ≤ (grow prog w n id body mark last lastmark s).2.pos ∧
        ((grow prog w n id body mark last lastmark s).1.isOk = true → mark < (grow prog w n id body mark last lastmark s).2.pos) := by
  induction d using Nat.strongRecOn with
  | _ d ih =>
    intro last lastmark s hd hm hle hl hinv hu
    have hmw : mark ≤ w.size := Nat.le_trans hm hle
    have hs1 : InFrame prog W w mark u (s.reset mark) := ⟨hinv.reset mark hmw, Nat.le_refl _, hu⟩
    obtain ⟨n1, hst1, h1, hP1, hnn1⟩ := (body_term hwf mark rid rem u rk hrem hrk H id body (s.reset mark) hs1 rfl hok).stable
      (fun n => (mono_all n).body id body _)
    have hd1 : DomLe s (execBody prog w n1 id body (s.reset mark)).2 := hP1.dom
    have hge1 : mark ≤ (execBody prog w n1 id body (s.reset mark)).2.pos := hP1.pos
    by_cases hab : (execBody prog w n1 id body (s.reset mark)).1.isAbort = true
    · refine ⟨n1 + 1, ?_⟩
      rw [grow]; simp only [hab, if_true]
      refine ⟨h1, hP1.inv, hd1, hge1, ?_⟩
      intro hk
      cases hr : (execBody prog w n1 id body (s.reset mark)).1 <;> rw [hr] at hab hk <;> simp [Res.isAbort, Res.isOk] at hab hk
    · have fin := finish_facts (W := W) (w := w) id mark last lastmark (execBody prog w n1 id body (s.reset mark)).2 hP1.inv hm hle hl
      have finish_case : (∀ e, (execBody prog w n1 id body (s.reset mark)).1 = .ok e → (execBody prog w n1 id body (s.reset mark)).2.pos ≤ lastmark) →
          ∃ n, (grow prog w n id body mark last lastmark s).1 ≠ .outOfFuel ∧ Inv W w (grow prog w n id body mark last lastmark s).2 ∧
            DomLe s (grow prog w n id body mark last lastmark s).2 ∧ mark ≤ (grow prog w n id body mark last lastmark s).2.pos ∧
            ((grow prog w n id body mark last lastmark s).1.isOk = true → mark < (grow prog w n id body mark last lastmark s).2.pos) := by
        intro hcase
        refine ⟨n1 + 1, ?_⟩
        rw [grow]; simp only [hab, Bool.false_eq_true, if_false]
        cases hr : (execBody prog w n1 id body (s.reset mark)).1 with
        | ok e =>
          simp only [hcase e hr, if_true]
          exact ⟨fin.1, fin.2.1, hd1.trans fin.2.2.1, fin.2.2.2.1, fin.2.2.2.2⟩
        | fail e => exact ⟨fin.1, fin.2.1, hd1.trans fin.2.2.1, fin.2.2.2.1, fin.2.2.2.2⟩
        | raised => exact ⟨fin.1, fin.2.1, hd1.trans fin.2.2.1, fin.2.2.2.1, fin.2.2.2.2⟩
        | undecided => exact ⟨fin.1, fin.2.1, hd1.trans fin.2.2.1, fin.2.2.2.1, fin.2.2.2.2⟩
        | tokErr => exact ⟨fin.1, fin.2.1, hd1.trans fin.2.2.1, fin.2.2.2.1, fin.2.2.2.2⟩
        | outOfFuel => exact absurd hr h1
      by_cases hgrow : ∃ e, (execBody prog w n1 id body (s.reset mark)).1 = .ok e ∧ lastmark < (execBody prog w n1 id body (s.reset mark)).2.pos
      · obtain ⟨e, hr, hlt⟩ := hgrow
        have hle2 := hP1.inv.pos_le
        have hinv3 : Inv W w { (execBody prog w n1 id body (s.reset mark)).2 with
            cache := cachePut (execBody prog w n1 id body (s.reset mark)).2.cache mark id (.ok (execBody prog w n1 id body (s.reset mark)).2.pos) } :=
          hP1.inv.put mark id _ rfl hle2 ⟨hge1, hle2, fun _ => by omega⟩
        have hd3 : DomLe s { (execBody prog w n1 id body (s.reset mark)).2 with
            cache := cachePut (execBody prog w n1 id body (s.reset mark)).2.cache mark id (.ok (execBody prog w n1 id body (s.reset mark)).2.pos) } :=
          hd1.trans (DomLe.put _ _ mark id _ rfl)
        obtain ⟨n2, h2, hi2, hdm2, hp2, hk2⟩ := ih (w.size - (execBody prog w n1 id body (s.reset mark)).2.pos) (by omega)
          (some (execBody prog w n1 id body (s.reset mark)).2.pos) (execBody prog w n1 id body (s.reset mark)).2.pos _ rfl (by omega) hle2 (fun _ => by omega) hinv3
          (Nat.le_trans (Ucount_mono hd3 mark) hu)
        have hst2 := stableFuel (fun n => grow prog w n id body mark (some (execBody prog w n1 id body (s.reset mark)).2.pos) (execBody prog w n1 id body (s.reset mark)).2.pos
            { (execBody prog w n1 id body (s.reset mark)).2 with
              cache := cachePut (execBody prog w n1 id body (s.reset mark)).2.cache mark id (.ok (execBody prog w n1 id body (s.reset mark)).2.pos) })
          (fun x => x.1 = .outOfFuel) (fun n => (mono_all n).grow id body mark _ _ _) n2 h2
        refine ⟨max n1 n2 + 1, ?_⟩
        rw [grow]; simp only []
        rw [hst1 _ (Nat.le_max_left _ _)]
        simp only [hab, Bool.false_eq_true, if_false, hr]
        have hnle : ¬ (execBody prog w n1 id body (s.reset mark)).2.pos ≤ lastmark := by omega
        simp only [hnle, if_false]
        rw [hst2 _ (Nat.le_max_right n1 n2)]
        exact ⟨h2, hi2, hd3.trans hdm2, hp2, hk2⟩
      · apply finish_case
        intro e hr
        cases Nat.lt_or_ge lastmark (execBody prog w n1 id body (s.reset mark)).2.pos with
        | inl hlt => exact absurd ⟨e, hr, hlt⟩ hgrow
        | inr hge => exact hge

end frame


/-- one step of the lexicographic induction: if every smaller rule call terminates, so does this one -/
theorem rule_step (hwf : ∀ id r, prog[id]? = some r → ruleOK W id r = true) (rem u rk : Nat) (H : CalleeOK prog W w rem u rk) :
    ∀ id s, Inv W w s → w.size - s.pos ≤ rem → Ueff prog W s id ≤ u → W.rank id ≤ rk →
      Term W w s (fun n => execRule prog w n id s) (!W.nullable id) := by
  intro id s hinv hrem hu hrk
  cases hr : prog[id]? with
  | none => exact Term.of_const 1 (by rw [execRule]; simp only [hr]; exact ⟨by simp, Post.refl hinv, by simp [Res.isOk]⟩)
  | some r =>
    have hro := hwf id r hr
    simp only [ruleOK, Bool.and_eq_true, beq_iff_eq, Bool.or_eq_true] at hro
    obtain ⟨⟨hlr, hnb⟩, hbok⟩ := hro
    have hnn : (!W.nullable id) = true → bodyNN W r.body = true := by
      intro h
      rcases hnb with h' | h'
      · simp [h'] at h
      · exact h'
    have plain : r.deco ≠ .leftrec → W.lr id = false := by
      intro hne
      rw [hlr]; simpa using hne
    have body_at : ∀ (s' : St), Inv W w s' → s'.pos = s.pos → Ucount prog W s' s.pos ≤ u →
        Term W w s' (fun n => execBody prog w n id r.body s') (bodyNN W r.body) := by
      intro s' hi' hp' hu'
      exact body_term hwf s.pos id rem u rk hrem hrk H id r.body s' ⟨hi', by omega, hu'⟩ hp' hbok
    cases hd : r.deco with
    | none =>
      have hl := plain (by rw [hd]; simp)
      have hu' : Ucount prog W s s.pos ≤ u := by simpa [Ueff, hl] using hu
      obtain ⟨n, h1, h2, h3⟩ := body_at s hinv rfl hu'
      exact ⟨n + 1, by simp only []; rw [execRule]; simp only [hr, hd]; exact h1, by simp only []; rw [execRule]; simp only [hr, hd]; exact h2,
        by intro hn; simp only []; rw [execRule]; simp only [hr, hd]; exact h3 (hnn hn)⟩
    | logger =>
      have hl := plain (by rw [hd]; simp)
      have hu' : Ucount prog W s s.pos ≤ u := by simpa [Ueff, hl] using hu
      obtain ⟨n, h1, h2, h3⟩ := body_at s hinv rfl hu'
      exact ⟨n + 1, by simp only []; rw [execRule]; simp only [hr, hd]; exact h1, by simp only []; rw [execRule]; simp only [hr, hd]; exact h2,
        by intro hn; simp only []; rw [execRule]; simp only [hr, hd]; exact h3 (hnn hn)⟩
    | memo =>
      cases hc : cacheGet s.cache s.pos id with
      | some res => exact rule_hit_term id s hinv r hr (Or.inl hd) res hc
      | none =>
        have hl := plain (by rw [hd]; simp)
        have hu' : Ucount prog W s s.pos ≤ u := by simpa [Ueff, hl] using hu
        obtain ⟨n, h1, h2, h3⟩ := body_at s hinv rfl hu'
        refine ⟨n + 1, ?_⟩
        simp only []; rw [execRule]; simp only [hr, hd, hc]
        by_cases hab : (execBody prog w n id r.body s).1.isAbort = true
        · simp only [hab, if_true]
          refine ⟨h1, h2, ?_⟩
          intro _ hk
          cases hres : (execBody prog w n id r.body s).1 <;> rw [hres] at hab hk <;> simp [Res.isAbort, Res.isOk] at hab hk
        · simp only [hab, Bool.false_eq_true, if_false]
          have hle := h2.inv.pos_le
          refine ⟨h1, ?_, fun hn hk => h3 (hnn hn) hk⟩
          refine ⟨?_, h2.pos, h2.dom.trans (DomLe.put _ _ s.pos id _ rfl)⟩
          have key : EntryOK W w s.pos id (match (execBody prog w n id r.body s).1 with
              | Res.ok _ => Res.ok (execBody prog w n id r.body s).2.pos
              | _ => Res.fail (execBody prog w n id r.body s).2.pos) := by
            cases hres : (execBody prog w n id r.body s).1 with
            | ok e =>
              refine ⟨h2.pos, hle, fun hnull => ?_⟩
              exact h3 (hnn (by simp [hnull])) (by simp only []; rw [hres]; rfl)
            | fail e => exact ⟨h2.pos, hle⟩
            | raised => exact ⟨h2.pos, hle⟩
            | undecided => exact ⟨h2.pos, hle⟩
            | tokErr => exact ⟨h2.pos, hle⟩
            | outOfFuel => exact ⟨h2.pos, hle⟩
          exact Inv.put (s := (execBody prog w n id r.body s).2) h2.inv s.pos id _ rfl hle key
    | leftrec =>
      cases hc : cacheGet s.cache s.pos id with
      | some res => exact rule_hit_term id s hinv r hr (Or.inr hd) res hc
      | none =>
        have hl : W.lr id = true := by rw [hlr, hd]; simp
        have hidlt := lt_size_of_some _ _ _ hr
        have hsz : s.pos < s.cache.size := by rw [hinv.size]; have := hinv.pos_le; omega
        have hinv0 : Inv W w { s with cache := cachePut s.cache s.pos id (.fail s.pos) } :=
          hinv.put s.pos id _ rfl hinv.pos_le ⟨Nat.le_refl _, hinv.pos_le⟩
        have hlt := Ucount_put_lt (prog := prog) (W := W) (s := s) (s' := { s with cache := cachePut s.cache s.pos id (.fail s.pos) }) s.pos id (.fail s.pos) rfl hsz hidlt hl hc
        have hu0 : Ucount prog W { s with cache := cachePut s.cache s.pos id (.fail s.pos) } s.pos ≤ u := by
          have : Ueff prog W s id = Ucount prog W s s.pos - 1 := by simp [Ueff, hl, hc]
          omega
        obtain ⟨n, h1, hi, hdm, hp, hk⟩ := grow_term hwf s.pos id rem u rk hrem hrk H id r.body hbok (w.size - s.pos) none s.pos
          { s with cache := cachePut s.cache s.pos id (.fail s.pos) } rfl (Nat.le_refl _) hinv.pos_le (by simp) hinv0 hu0
        refine ⟨n + 1, ?_⟩
        simp only []; rw [execRule]; simp only [hr, hd, hc]
        exact ⟨h1, ⟨hi, hp, (DomLe.put s _ s.pos id _ rfl).trans hdm⟩, fun _ hok => hk hok⟩


theorem rule_term_all (hwf : ∀ id r, prog[id]? = some r → ruleOK W id r = true) :
    ∀ rem u rk id s, Inv W w s → w.size - s.pos ≤ rem → Ueff prog W s id ≤ u → W.rank id ≤ rk →
      Term W w s (fun n => execRule prog w n id s) (!W.nullable id) := by
  intro rem
  induction rem using Nat.strongRecOn with
  | _ rem ihRem =>
    intro u
    induction u using Nat.strongRecOn with
    | _ u ihU =>
      intro rk
      induction rk using Nat.strongRecOn with
      | _ rk ihRk =>
        apply rule_step hwf rem u rk
        intro id s hinv hsm
        rcases hsm with h | ⟨hle, h | ⟨hue, hrk⟩⟩
        · exact ihRem _ h _ _ id s hinv (Nat.le_refl _) (Nat.le_refl _) (Nat.le_refl _)
        · exact ihU _ h _ id s hinv hle (Nat.le_refl _) (Nat.le_refl _)
        · exact ihRk _ hrk id s hinv hle hue (Nat.le_refl _)

theorem wfCertAux_spec (l : List Rule) : ∀ (i : Nat), wfCertAux W l i = true → ∀ j r, l[j]? = some r → ruleOK W (i + j) r = true := by
  induction l with
  | nil => intro i _ j r h; simp at h
  | cons x xs ih =>
    intro i h j r hj
    simp only [wfCertAux, Bool.and_eq_true] at h
    cases j with
    | zero => simp at hj; rw [← hj]; exact h.1
    | succ j =>
      simp at hj
      have := ih (i + 1) h.2 j r hj
      rw [show i + (j + 1) = i + 1 + j by omega]; exact this

theorem wfCert_spec (h : wfCert prog W = true) : ∀ id r, prog[id]? = some r → ruleOK W id r = true := by
  intro id r hr
  have := wfCertAux_spec (W := W) prog.toList 0 h id r (by rw [Array.getElem?_toList]; exact hr)
  simpa using this

theorem cacheGet_replicate (n p id : Nat) : cacheGet (Array.replicate n ([] : List (Nat × Res))) p id = none := by
  unfold cacheGet
  cases h : (Array.replicate n ([] : List (Nat × Res)))[p]? with
  | none => rfl
  | some l =>
    have : l = [] := by
      rw [Array.getElem?_replicate] at h
      split at h
      · injection h with h; exact h.symm
      · cases h
    subst this; rfl

theorem inv_fresh (s : St) (hp : s.pos ≤ w.size) (hc : s.cache = Array.replicate (w.size + 1) []) : Inv W w s :=
  ⟨hp, by rw [hc]; simp, by intro p id r h; rw [hc, cacheGet_replicate] at h; cases h⟩

/-- every rule call from a state that satisfies the cache invariant terminates -/
theorem execRule_total (hcert : wfCert prog W = true) (id : Nat) (s : St) (hinv : Inv W w s) :
    ∃ n, (execRule prog w n id s).1 ≠ .outOfFuel := by
  obtain ⟨n, h, _⟩ := rule_term_all (wfCert_spec hcert) (w.size - s.pos) (Ueff prog W s id) (W.rank id) id s hinv (Nat.le_refl _) (Nat.le_refl _) (Nat.le_refl _)
  exact ⟨n, h⟩

/-- **parser_total**: a program that passes the well-formedness certificate never runs out of fuel in `Parser.parse`,
    for every token list, start rule and verbosity - neither in the first pass nor in the diagnostic pass. -/
theorem parse_total (hcert : wfCert prog W = true) (w : Array RTok) (start : Nat) (verbose : Bool) :
    ∃ fuel, (parse prog w fuel start verbose).1 ≠ .outOfFuel := by
  obtain ⟨n1, h1⟩ := execRule_total (W := W) (w := w) hcert start (St.init w.size false verbose) (inv_fresh _ (Nat.zero_le _) rfl)
  cases hr : (execRule prog w n1 start (St.init w.size false verbose)).1 with
  | fail e =>
    obtain ⟨n2, h2⟩ := execRule_total (W := W) (w := w) hcert start
      { ((execRule prog w n1 start (St.init w.size false verbose)).2.reset 0) with invalid := true, cache := Array.replicate (w.size + 1) [] }
      (inv_fresh _ (Nat.zero_le _) rfl)
    refine ⟨max n1 n2, ?_⟩
    have e1 : execRule prog w (max n1 n2) start (St.init w.size false verbose) = execRule prog w n1 start (St.init w.size false verbose) := by
      have := execRule_fuel_mono (prog := prog) (w := w) n1 (max n1 n2 - n1) start _ h1
      rwa [show n1 + (max n1 n2 - n1) = max n1 n2 by omega] at this
    have e2 := execRule_fuel_mono (prog := prog) (w := w) n2 (max n1 n2 - n2) start _ h2
    rw [show n2 + (max n1 n2 - n2) = max n1 n2 by omega] at e2
    unfold parse
    simp only []
    rw [e1, hr]
    simp only []
    rw [e2]
    cases hr2 : (execRule prog w n2 start { ((execRule prog w n1 start (St.init w.size false verbose)).2.reset 0) with invalid := true, cache := Array.replicate (w.size + 1) [] }).1 <;> simp
    exact absurd hr2 h2
  | ok e => exact ⟨n1, by unfold parse; simp only []; rw [hr]; simp⟩
  | raised => exact ⟨n1, by unfold parse; simp only []; rw [hr]; simp⟩
  | undecided => exact ⟨n1, by unfold parse; simp only []; rw [hr]; simp⟩
  | tokErr => exact ⟨n1, by unfold parse; simp only []; rw [hr]; simp⟩
  | outOfFuel => exact absurd hr h1

end XV.Peg
