/-
  A command line described by its layout (gap, tokens of the word) and the pieces the parser
  sees for it; lemmas for `words_are_source_words` (C06).
-/
import XonshVerif.Proofs.ProcArgs
namespace XV

/-- The contiguous tokens of one word starting at column `c` of line `ln`; returns the end column. -/
def wordToks (ln : Nat) : Nat → List (List Nat) → List Piece
  | _, [] => []
  | c, t :: ts => .tok t ⟨ln, c⟩ ⟨ln, c + t.length⟩ :: wordToks ln (c + t.length) ts

def wordEnd (c : Nat) (ts : List (List Nat)) : Nat := c + ts.flatten.length

/-- A command: words, each preceded by `gap` blanks. -/
def cmdToks (ln : Nat) : Nat → List (Nat × List (List Nat)) → List Piece
  | _, [] => []
  | c, (gap, ts) :: ws => wordToks ln (c + gap) ts ++ cmdToks ln (wordEnd (c + gap) ts) ws

theorem tokStrs_wordToks (ln c : Nat) (ts : List (List Nat)) : tokStrs (wordToks ln c ts) = some ts := by
  induction ts generalizing c with
  | nil => rfl
  | cons t ts ih => simp [wordToks, tokStrs, ih]

/-- Where does the next piece (if any) start? -/
def headStartNe (rest : List Piece) (p : Pos) : Prop :=
  match rest with
  | [] => True
  | q :: _ => q.start ≠ p

theorem takeRun_word (ln c : Nat) (ts : List (List Nat)) (rest : List Piece)
    (h : headStartNe rest ⟨ln, wordEnd c ts⟩) :
    takeRun ⟨ln, c⟩ (wordToks ln c ts ++ rest) = (wordToks ln c ts, rest) := by
  induction ts generalizing c with
  | nil =>
    cases rest with
    | nil => simp [wordToks, takeRun]
    | cons q qs =>
      simp only [headStartNe, wordEnd, List.flatten_nil, List.length_nil, Nat.add_zero] at h
      simp [wordToks, takeRun, Ne.symm h]
  | cons t ts ih =>
    have h' : headStartNe rest ⟨ln, wordEnd (c + t.length) ts⟩ := by
      simpa [wordEnd, Nat.add_assoc] using h
    simp [wordToks, takeRun, Piece.start, Piece.stop, ih (c + t.length) h']

theorem cmdToks_headStart (ln c : Nat) (ws : List (Nat × List (List Nat)))
    (hgap : ∀ w ∈ ws, 1 ≤ w.1) (hne : ∀ w ∈ ws, w.2 ≠ []) :
    headStartNe (cmdToks ln c ws) ⟨ln, c⟩ := by
  cases ws with
  | nil => simp [cmdToks, headStartNe]
  | cons w ws =>
    obtain ⟨gap, ts⟩ := w
    have hg : 1 ≤ gap := hgap (gap, ts) (by simp)
    have hts : ts ≠ [] := hne (gap, ts) (by simp)
    cases ts with
    | nil => exact absurd rfl hts
    | cons t ts =>
      simp only [cmdToks, wordToks, List.cons_append, headStartNe, Piece.start]
      intro hc
      injection hc with _ hcol
      omega

/-- The value of a constant argument. -/
def Arg.val? : Arg → Option (List Nat)
  | .const s _ _ => some s
  | _ => none

theorem procArgs_cmd (ln c : Nat) (ws : List (Nat × List (List Nat)))
    (hgap : ∀ w ∈ ws.tail, 1 ≤ w.1) (hne : ∀ w ∈ ws, w.2 ≠ []) :
    (procArgsAux none (cmdToks ln c ws)).map Arg.val? = ws.map (fun w => some w.2.flatten) := by
  induction ws generalizing c with
  | nil => simp [cmdToks, procArgsAux]
  | cons w ws ih =>
    obtain ⟨gap, ts⟩ := w
    have hts : ts ≠ [] := hne (gap, ts) (by simp)
    have hgap' : ∀ w ∈ ws, 1 ≤ w.1 := fun w hw => hgap w (by simpa using hw)
    have hgap'' : ∀ w ∈ ws.tail, 1 ≤ w.1 := fun w hw => hgap' w (List.mem_of_mem_tail hw)
    have hne' : ∀ w ∈ ws, w.2 ≠ [] := fun w hw => hne w (by simp [hw])
    cases ts with
    | nil => exact absurd rfl hts
    | cons t ts =>
      have hrest := cmdToks_headStart ln (wordEnd (c + gap) (t :: ts)) ws hgap' hne'
      have hrest' : headStartNe (cmdToks ln (wordEnd (c + gap) (t :: ts)) ws)
          ⟨ln, wordEnd (c + gap + t.length) ts⟩ := by
        simpa [wordEnd, Nat.add_assoc] using hrest
      simp only [cmdToks, wordToks, List.cons_append, procArgsAux, Piece.toArg]
      rw [procArgsAux_some]
      simp only [Arg.stop]
      rw [takeRun_word ln (c + gap + t.length) ts _ hrest']
      obtain ⟨e, he⟩ := foldl_tokens t ⟨ln, c + gap⟩ ⟨ln, c + gap + t.length⟩ (wordToks ln (c + gap + t.length) ts) ts
        (tokStrs_wordToks _ _ _)
      simp only [List.map_cons, he, Arg.val?, List.flatten_cons]
      rw [ih _ hgap'' hne']

end XV
