/-
  C17 / C04 - matches of the declarative PEG semantics are forward ranges inside the token list: a rule that matches from `p`
  ends at some `e` with `p ≤ e ≤ max p w.size`.  Mutual structural recursion on the derivation.
-/
import XonshVerif.Proofs.PegSpecDet
namespace XV.Peg
variable {P : Prog} {w : Array RTok}

/-- `e` lies forward of `p` and inside the token list (or at `p` itself) -/
def Rng (w : Array RTok) (p e : Nat) : Prop := p ≤ e ∧ e ≤ max p w.size

theorem Rng.refl (p : Nat) : Rng w p p := ⟨Nat.le_refl _, Nat.le_max_left _ _⟩
theorem Rng.trans {p q e : Nat} (h1 : Rng w p q) (h2 : Rng w q e) : Rng w p e := by
  unfold Rng at *; omega

mutual
theorem SPrim.rng {x : Prim} {p : Nat} {r : Option Nat} (h : SPrim P w x p r) : ∀ e, r = some e → Rng w p e :=
  match h with
  | .hit q test _ t hq hw ht => by
    intro e he; injection he with he; subst he
    have := (Array.getElem?_eq_some_iff.mp hw).1
    unfold Rng; omega
  | .miss q test _ t hq hw ht => by intro e he; cases he
  | .rule id _ _ h' => SRule.rng h'
termination_by structural h
theorem SRule.rng {id : Nat} {p : Nat} {r : Option Nat} (h : SRule P w id p r) : ∀ e, r = some e → Rng w p e :=
  match h with
  | .mk _ _ _ _ _ hbd => SBody.rng hbd
termination_by structural h
theorem SBody.rng {b : Body} {p : Nat} {r : Option Nat} (h : SBody P w b p r) : ∀ e, r = some e → Rng w p e :=
  match h with
  | .seqAlts ps _ _ h' => SSeq.rng h'
  | .alts as wo ul _ _ h' => SAlts.rng h'
termination_by structural h
theorem SSeq.rng {ps : List Prim} {p : Nat} {r : Option Nat} (h : SSeq P w ps p r) : ∀ e, r = some e → Rng w p e :=
  match h with
  | .nil _ => by intro e he; cases he
  | .hit q qs _ e h' => SPrim.rng h'
  | .miss q qs _ _ h' hs => SSeq.rng hs
termination_by structural h
theorem SAlts.rng {as : List Alt} {p : Nat} {r : Option Nat} (h : SAlts P w as p r) : ∀ e, r = some e → Rng w p e :=
  match h with
  | .nil _ => by intro e he; cases he
  | .hit a as _ e c hi => SItems.rng hi
  | .cut a as _ hi => by intro e he; cases he
  | .miss a as _ _ hi hs => SAlts.rng hs
termination_by structural h
theorem SItems.rng {its : List AltItem} {p : Nat} {c : Bool} {r : Option Nat} {c' : Bool}
    (h : SItems P w its p c r c') : ∀ e, r = some e → Rng w p e :=
  match h with
  | .nil _ _ => by intro e he; injection he with he; subst he; exact Rng.refl _
  | .setCut o its _ _ _ _ h' => SItems.rng h'
  | .ok it its _ q _ _ _ hne hi hs => fun e he => (SItem.rng hi q rfl).trans (SItems.rng hs e he)
  | .skip it its _ _ _ _ hne ho hi hs => SItems.rng hs
  | .fail it its _ _ hne ho hi => by intro e he; cases he
termination_by structural h
theorem SItem.rng {it : Item} {p : Nat} {r : Option Nat} (h : SItem P w it p r) : ∀ e, r = some e → Rng w p e :=
  match h with
  | .call q _ _ h' => SPrim.rng h'
  | .seqAlts ps _ _ h' => SSeq.rng h'
  | .plusOk q _ n e h' => by intro e' he; injection he with he; subst he; exact SStar.rng h'
  | .plusFail q _ h' => by intro e he; cases he
  | .gatherOk el sp _ q n e h' hs => by
    intro e' he; injection he with he; subst he
    exact (SSeq.rng h' q rfl).trans (SSep.rng hs)
  | .gatherFail el sp _ h' => by intro e he; cases he
  | .posOk q _ e h' => by intro e' he; injection he with he; subst he; exact Rng.refl _
  | .posFail q _ h' => by intro e he; cases he
  | .negOk q _ h' => by intro e' he; injection he with he; subst he; exact Rng.refl _
  | .negFail q _ e h' => by intro e' he; cases he
  | .forced q what _ e h' => SPrim.rng h'
termination_by structural h
theorem SStar.rng {q : Prim} {p k e : Nat} (h : SStar P w q p k e) : Rng w p e :=
  match h with
  | .stop _ _ h' => Rng.refl _
  | .step _ _ e1 n _ h' hs => (SPrim.rng h' e1 rfl).trans (SStar.rng hs)
termination_by structural h
theorem SSep.rng {el sp : Prim} {p k e : Nat} (h : SSep P w el sp p k e) : Rng w p e :=
  match h with
  | .stopSep _ _ _ h' => Rng.refl _
  | .stopElem _ _ _ _ _ _ => Rng.refl _
  | .step _ _ _ q r1 n _ h' hs hss => ((SPrim.rng h' q rfl).trans (SSeq.rng hs r1 rfl)).trans (SSep.rng hss)
termination_by structural h
end
end XV.Peg
