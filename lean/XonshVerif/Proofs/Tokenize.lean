/-
  Progress and termination of the tokenizer model (used by Properties/C03.lean, C08.lean):
  every function of the scan loop keeps the line, never moves the position backwards and stays
  inside the line; a returned token moves it strictly forward.
-/
import XonshVerif.Model.Tokenize
import XonshVerif.Proofs.Regex
namespace XV.Tz
open XV XV.Rx

/-- "the scan position only moves forward inside the same line" -/
structure Adv (st st' : TState) : Prop where
  line : st'.line = st.line
  max  : st'.max = st.max
  lnum : st'.lnum = st.lnum
  ge   : st.pos ≤ st'.pos

theorem Adv.refl (st : TState) : Adv st st := ⟨rfl, rfl, rfl, Nat.le_refl _⟩
theorem Adv.trans {a b c : TState} (h1 : Adv a b) (h2 : Adv b c) : Adv a c :=
  ⟨h2.line.trans h1.line, h2.max.trans h1.max, h2.lnum.trans h1.lnum, Nat.le_trans h1.ge h2.ge⟩

@[simp] theorem popMode_line (st : TState) (e : Option Pos) : (st.popMode e).line = st.line := by
  unfold TState.popMode; split <;> (try split) <;> rfl
@[simp] theorem popMode_max (st : TState) (e : Option Pos) : (st.popMode e).max = st.max := by
  unfold TState.popMode; split <;> (try split) <;> rfl
@[simp] theorem popMode_pos (st : TState) (e : Option Pos) : (st.popMode e).pos = st.pos := by
  unfold TState.popMode; split <;> (try split) <;> rfl
@[simp] theorem popMode_lnum (st : TState) (e : Option Pos) : (st.popMode e).lnum = st.lnum := by
  unfold TState.popMode; split <;> (try split) <;> rfl
@[simp] theorem addProg_line (st : TState) (s e : Nat) (m : Mode) (p : PatKind) (q : List Nat) : (st.addProg s e m p q).line = st.line := rfl
@[simp] theorem addProg_max (st : TState) (s e : Nat) (m : Mode) (p : PatKind) (q : List Nat) : (st.addProg s e m p q).max = st.max := rfl
@[simp] theorem addProg_pos (st : TState) (s e : Nat) (m : Mode) (p : PatKind) (q : List Nat) : (st.addProg s e m p q).pos = st.pos := rfl
@[simp] theorem addProg_lnum (st : TState) (s e : Nat) (m : Mode) (p : PatKind) (q : List Nat) : (st.addProg s e m p q).lnum = st.lnum := rfl

theorem progToken_spec (st : TState) (e : Nat) (ty : TT) :
    (st.progToken e ty).2.line = st.line ∧ (st.progToken e ty).2.max = st.max ∧ (st.progToken e ty).2.lnum = st.lnum ∧
    ((st.progToken e ty).2.pos = e ∨ (st.endProgs = [] ∧ (st.progToken e ty).2.pos = st.pos)) := by
  unfold TState.progToken
  split
  · simp_all
  · simp

/-- the first matching branch really matches -/
theorem matchBranches_sound (E : Env) (fuel : Nat) (bs : Branches) (s : Array Nat) (pos : Nat) (name : String) (e : Nat)
    (h : matchBranches E fuel bs s pos = .inl (some (name, e))) :
    ∃ r, (name, r) ∈ bs ∧ matchAt E fuel r s pos = .matched e := by
  induction bs with
  | nil => simp [matchBranches] at h
  | cons b bs ih =>
    obtain ⟨n, r⟩ := b
    simp only [matchBranches] at h
    split at h
    · rename_i e' hm
      injection h with h
      injection h with h
      injection h with h1 h2
      subst h1; subst h2
      exact ⟨r, by simp, hm⟩
    · obtain ⟨r', hr', hm'⟩ := ih h
      exact ⟨r', by simp [hr'], hm'⟩
    · simp at h

theorem matchBranches_ge (E : Env) (fuel : Nat) (bs : Branches) (s : Array Nat) (pos : Nat) (name : String) (e : Nat)
    (h : matchBranches E fuel bs s pos = .inl (some (name, e))) : pos ≤ e := by
  obtain ⟨r, _, hm⟩ := matchBranches_sound E fuel bs s pos name e h
  exact matchAt_ge E fuel r s pos e hm

theorem matchBranches_le (E : Env) (fuel : Nat) (bs : Branches) (s : Array Nat) (pos : Nat) (name : String) (e : Nat)
    (hpos : pos ≤ s.size) (h : matchBranches E fuel bs s pos = .inl (some (name, e))) : e ≤ s.size := by
  obtain ⟨r, _, hm⟩ := matchBranches_sound E fuel bs s pos name e h
  exact matchAt_le_size E fuel r s pos e hpos hm

end XV.Tz

namespace XV.Tz
open XV XV.Rx

theorem progToken_line (st : TState) (e : Nat) (ty : TT) : (st.progToken e ty).2.line = st.line := (progToken_spec st e ty).1
theorem progToken_max (st : TState) (e : Nat) (ty : TT) : (st.progToken e ty).2.max = st.max := (progToken_spec st e ty).2.1
theorem progToken_lnum (st : TState) (e : Nat) (ty : TT) : (st.progToken e ty).2.lnum = st.lnum := (progToken_spec st e ty).2.2.1

theorem emitMiddle_spec (st : TState) (me : Nat) (prog : EndProg) :
    (emitMiddle st me prog).2.line = st.line ∧ (emitMiddle st me prog).2.max = st.max ∧ (emitMiddle st me prog).2.lnum = st.lnum := by
  unfold emitMiddle
  split
  · exact ⟨progToken_line _ _ _, progToken_max _ _ _, progToken_lnum _ _ _⟩
  · exact ⟨rfl, rfl, rfl⟩

theorem handleFstringProgs_adv (E : Env) (P : Pats) (st st' : TState) (ts : List Tok5) (mt : Bool)
    (hmax : st.max = st.line.size) (hle : st.pos ≤ st.max)
    (h : handleFstringProgs E P st = .ok (ts, st', mt)) : Adv st st' ∧ st'.pos ≤ st'.max := by
  unfold handleFstringProgs at h
  split at h
  · injection h with h; injection h with _ h; injection h with h _; subst h; exact ⟨Adv.refl _, hle⟩
  · rename_i prog rest hprogs
    split at h
    · cases h
    · injection h with h; injection h with _ h; injection h with h _; subst h; exact ⟨Adv.refl _, hle⟩
    · rename_i group e hm
      have hge := matchBranches_ge _ _ _ _ _ _ _ hm
      have hbd : e ≤ st.max := by rw [hmax]; exact matchBranches_le _ _ _ _ _ _ _ (by rw [← hmax]; exact hle) hm
      simp only [] at h
      split at h
      · injection h with h; injection h with _ h; injection h with h _; subst h; exact ⟨Adv.refl _, hle⟩
      · split at h
        · injection h with h; injection h with _ h; injection h with h _; subst h
          have := emitMiddle_spec st (e - prog.quote.length) prog
          refine ⟨?_, by simp [this, hbd]⟩
          constructor <;> simp [this, hge]
        · split at h
          · injection h with h; injection h with _ h; injection h with h _; subst h
            have := emitMiddle_spec st (e - 1) prog
            refine ⟨?_, by simp [this, hbd]⟩
            constructor <;> simp [this, hge]
          · injection h with h; injection h with _ h; injection h with h _; subst h
            have := emitMiddle_spec st (e - 1) prog
            refine ⟨?_, by simp [this, hbd]⟩
            constructor <;> simp [this, hge]

end XV.Tz

namespace XV.Tz
open XV XV.Rx

theorem endProgStep_adv (E : Env) (P : Pats) (st st' : TState) (prog : EndProg) (rest : List EndProg) (ts : List Tok5) (mt early : Bool)
    (hmax : st.max = st.line.size) (hle : st.pos ≤ st.max)
    (hp : st.endProgs = prog :: rest)
    (h : endProgStep E P st prog = .ok (ts, st', mt, early)) : Adv st st' ∧ st'.pos ≤ st'.max := by
  unfold endProgStep at h
  split at h
  · split at h
    · cases h
    · rename_i ts0 s0 m0 hf
      injection h with h; injection h with _ h; injection h with h _; subst h
      exact handleFstringProgs_adv E P st _ ts0 m0 hmax hle hf
  · split at h
    · cases h
    · rename_i nm e hm
      have hge := matchBranches_ge _ _ _ _ _ _ _ hm
      have hbd : e ≤ st.max := by rw [hmax]; exact matchBranches_le _ _ _ _ _ _ _ (by rw [← hmax]; exact hle) hm
      injection h with h; injection h with _ h; injection h with h _; subst h
      have hs := progToken_spec st e .STRING
      rcases hs.2.2.2 with h1 | ⟨h1, _⟩
      · exact ⟨⟨by simp [hs.1], by simp [hs.2.1], by simp [hs.2.2.1], by simp [h1, hge]⟩, by simp [h1, hs.2.1, hbd]⟩
      · simp [hp] at h1
    · injection h with h; injection h with _ h; injection h with h _; subst h; exact ⟨Adv.refl _, hle⟩

theorem endProgFinish_adv (ts ts' : List Tok5) (s s' : TState) (mt early : Bool) (hle : s.pos ≤ s.max)
    (h : endProgFinish ts s mt early = .ok (ts', s')) : Adv s s' ∧ s'.pos ≤ s'.max := by
  unfold endProgFinish at h
  split at h
  · injection h with h; injection h with _ h; subst h; exact ⟨Adv.refl _, hle⟩
  · split at h
    · injection h with h; injection h with _ h; subst h; exact ⟨Adv.refl _, hle⟩
    · split at h
      · injection h with h; injection h with _ h; subst h; exact ⟨Adv.refl _, hle⟩
      · split at h
        · split at h
          · injection h with h; injection h with _ h; subst h; exact ⟨Adv.refl _, hle⟩
          · injection h with h; injection h with _ h; subst h
            exact ⟨⟨rfl, rfl, rfl, hle⟩, Nat.le_refl _⟩
        · split at h
          · cases h
          · injection h with h; injection h with _ h; subst h; exact ⟨Adv.refl _, hle⟩

theorem handleEndProgs_adv (E : Env) (P : Pats) (st st' : TState) (ts : List Tok5)
    (hmax : st.max = st.line.size) (hle : st.pos ≤ st.max)
    (h : handleEndProgs E P st = .ok (ts, st')) : Adv st st' ∧ st'.pos ≤ st'.max := by
  unfold handleEndProgs at h
  split at h
  · injection h with h; injection h with _ h; subst h; exact ⟨Adv.refl _, hle⟩
  · rename_i prog rest hp
    split at h
    · cases h
    · split at h
      · injection h with h; injection h with _ h; subst h; exact ⟨Adv.refl _, hle⟩
      · split at h
        · cases h
        · rename_i ts0 s0 m0 e0 hstep
          have a1 := endProgStep_adv E P st s0 prog rest ts0 m0 e0 hmax hle hp hstep
          have a2 := endProgFinish_adv ts0 ts s0 st' m0 e0 a1.2 h
          exact ⟨a1.1.trans a2.1, a2.2⟩

end XV.Tz

namespace XV.Tz
open XV XV.Rx

/-- Hypothesis delivered by the certificate `pseudo_branches_progress`. -/
def PseudoProgress (P : Pats) : Prop := ∀ b ∈ P.pseudo, b.1 ≠ "End" → nonNull b.2 = true

theorem matchBranches_gt (E : Env) (fuel : Nat) (P : Pats) (hP : PseudoProgress P) (s : Array Nat) (pos : Nat) (name : String) (e : Nat)
    (hne : name ≠ "End") (h : matchBranches E fuel P.pseudo s pos = .inl (some (name, e))) : pos < e := by
  obtain ⟨r, hmem, hm⟩ := matchBranches_sound E fuel P.pseudo s pos name e h
  exact matchAt_gt E fuel r s pos e (hP (name, r) hmem hne) hm

theorem slice_nonempty_lt (a : Array Nat) (i j : Nat) (h : slice a i j ≠ []) : i < j := by
  unfold slice at h
  cases Nat.lt_or_ge i j with
  | inl hlt => exact hlt
  | inr hge =>
    exfalso; apply h
    simp [Array.extract_eq_empty_of_le, hge]

theorem specialAction_frame (st : TState) (start e : Nat) :
    (specialAction st start e).line = st.line ∧ (specialAction st start e).max = st.max ∧
    (specialAction st start e).lnum = st.lnum ∧ (specialAction st start e).pos = st.pos := by
  unfold specialAction
  split
  · exact ⟨rfl, rfl, rfl, rfl⟩
  · split
    · refine ⟨?_, ?_, ?_, ?_⟩ <;> (split <;> simp)
    · split
      · exact ⟨rfl, rfl, rfl, rfl⟩
      · exact ⟨rfl, rfl, rfl, rfl⟩

set_option hygiene false in
macro "fin_ok" : tactic => `(tactic| (injection h with h; injection h with h1 h2; subst h2; exact ⟨rfl, rfl, rfl, rfl⟩))

/-- every branch of `pseudoAction` keeps line/max/lnum/pos -/
theorem pseudoAction_frame (st st' : TState) (group : String) (start e : Nat) (tok : Option Tok5)
    (h : pseudoAction st group start e = .ok (tok, st')) :
    st'.line = st.line ∧ st'.max = st.max ∧ st'.lnum = st.lnum ∧ st'.pos = st.pos := by
  unfold pseudoAction at h
  split at h
  · split at h <;> fin_ok
  · split at h
    · fin_ok
    · split at h
      · fin_ok
      · split at h
        · fin_ok
        · split at h
          · fin_ok
          · split at h
            · fin_ok
            · split at h
              · fin_ok
              · split at h
                · injection h with h; injection h with h1 h2; subst h2; exact specialAction_frame st start e
                · split at h
                  · fin_ok
                  · cases h

/-- a token is only returned for a non-`End` group or for a non-empty token text -/
theorem pseudoAction_some (st st' : TState) (group : String) (start e : Nat) (t : Tok5)
    (h : pseudoAction st group start e = .ok (some t, st')) : group ≠ "End" ∨ slice st.line start e ≠ [] := by
  unfold pseudoAction at h
  by_cases hg : group = "End"
  · right
    subst hg
    simp at h
    intro hc
    rw [hc] at h
    simp at h
  · exact Or.inl hg

theorem nextPseudo_adv (E : Env) (P : Pats) (hP : PseudoProgress P) (st st' : TState) (tok : Option Tok5)
    (hmax : st.max = st.line.size) (hle : st.pos ≤ st.max)
    (h : nextPseudoMatches E P st = .ok (tok, st')) :
    Adv st st' ∧ st'.pos ≤ st'.max ∧ (tok.isSome → st.pos < st'.pos) := by
  unfold nextPseudoMatches at h
  split at h
  · injection h with h; injection h with h1 h2; subst h1; subst h2; exact ⟨Adv.refl _, hle, by simp⟩
  · split at h
    · cases h
    · injection h with h; injection h with h1 h2; subst h1; subst h2; exact ⟨Adv.refl _, hle, by simp⟩
    · rename_i group e hm
      have hge := matchBranches_ge _ _ _ _ _ _ _ hm
      have hbd : e ≤ st.max := by rw [hmax]; exact matchBranches_le _ _ _ _ _ _ _ (by rw [← hmax]; exact hle) hm
      have hgt : group ≠ "End" → st.pos < e := fun hne => matchBranches_gt E _ P hP _ _ _ _ hne hm
      obtain ⟨f1, f2, f3, f4⟩ := pseudoAction_frame _ _ _ _ _ _ h
      simp only [] at f1 f2 f3 f4
      refine ⟨⟨f1, f2, f3, by rw [f4]; exact hge⟩, by rw [f4, f2]; exact hbd, ?_⟩
      intro hsome
      rw [f4]
      cases tok with
      | none => simp at hsome
      | some t =>
        rcases pseudoAction_some _ _ _ _ _ _ h with hne | hne
        · exact hgt hne
        · exact slice_nonempty_lt _ _ _ hne

end XV.Tz

namespace XV.Tz
open XV XV.Rx

theorem handleFstringProgs_err (E : Env) (P : Pats) (st : TState) (e : Err)
    (h : handleFstringProgs E P st = .error e) : e ≠ .loopFuel := by
  unfold handleFstringProgs at h
  split at h
  · cases h
  · split at h
    · injection h with h; subst h; simp
    · cases h
    · simp only [] at h
      split at h
      · cases h
      · split at h
        · cases h
        · split at h <;> cases h

theorem endProgStep_err (E : Env) (P : Pats) (st : TState) (prog : EndProg) (e : Err)
    (h : endProgStep E P st prog = .error e) : e ≠ .loopFuel := by
  unfold endProgStep at h
  split at h
  · split at h
    · rename_i e' hf
      injection h with h; subst h
      exact handleFstringProgs_err E P st _ hf
    · cases h
  · split at h
    · injection h with h; subst h; simp
    · cases h
    · cases h

theorem endProgFinish_err (ts : List Tok5) (s : TState) (mt early : Bool) (e : Err)
    (h : endProgFinish ts s mt early = .error e) : e ≠ .loopFuel := by
  unfold endProgFinish at h
  split at h
  · cases h
  · split at h
    · cases h
    · split at h
      · cases h
      · split at h
        · split at h <;> cases h
        · split at h
          · injection h with h; subst h; simp
          · cases h

theorem handleEndProgs_err (E : Env) (P : Pats) (st : TState) (e : Err)
    (h : handleEndProgs E P st = .error e) : e ≠ .loopFuel := by
  unfold handleEndProgs at h
  split at h
  · cases h
  · split at h
    · injection h with h; subst h; simp
    · split at h
      · cases h
      · split at h
        · rename_i e' hs
          injection h with h; subst h
          exact endProgStep_err E P st _ _ hs
        · exact endProgFinish_err _ _ _ _ _ h

theorem pseudoAction_err (st : TState) (group : String) (start e0 : Nat) (e : Err)
    (h : pseudoAction st group start e0 = .error e) : e ≠ .loopFuel := by
  unfold pseudoAction at h
  split at h
  · split at h <;> cases h
  · split at h
    · cases h
    · split at h
      · cases h
      · split at h
        · cases h
        · split at h
          · cases h
          · split at h
            · cases h
            · split at h
              · cases h
              · split at h
                · cases h
                · split at h
                  · cases h
                  · injection h with h; subst h; simp

theorem nextPseudo_err (E : Env) (P : Pats) (st : TState) (e : Err)
    (h : nextPseudoMatches E P st = .error e) : e ≠ .loopFuel := by
  unfold nextPseudoMatches at h
  split at h
  · cases h
  · split at h
    · injection h with h; subst h; simp
    · cases h
    · exact pseudoAction_err _ _ _ _ _ h

/-- **scan_loop_terminates.** With the progress certificate, the per-line scan loop of `_tokenize` never
    runs out of its fuel: every iteration moves the position strictly forward. -/
theorem scanLine_no_loopFuel (E : Env) (P : Pats) (hP : PseudoProgress P) :
    ∀ (fuel : Nat) (st : TState) (acc acc' : List Tok5),
      st.max = st.line.size → st.pos ≤ st.max → st.max - st.pos < fuel →
      scanLine E P fuel st acc ≠ .error (.loopFuel, acc') := by
  intro fuel
  induction fuel with
  | zero => intro st acc acc' _ _ hf; omega
  | succ fuel ih =>
    intro st acc acc' hmax hle hf
    unfold scanLine
    split
    · rename_i hlt
      split
      · rename_i e he
        intro hc
        injection hc with hc
        injection hc with hc _
        exact handleEndProgs_err E P st e he hc
      · rename_i ts1 st1 h1
        obtain ⟨a1, b1⟩ := handleEndProgs_adv E P st st1 ts1 hmax hle h1
        have hmax1 : st1.max = st1.line.size := by rw [a1.max, a1.line]; exact hmax
        split
        · rename_i e he
          intro hc
          injection hc with hc
          injection hc with hc _
          exact nextPseudo_err E P st1 e he hc
        · rename_i t st2 h2
          obtain ⟨a2, b2, c2⟩ := nextPseudo_adv E P hP st1 st2 (some t) hmax1 b1 h2
          have hlt2 := c2 (by simp)
          apply ih
          · rw [a2.max, a2.line]; exact hmax1
          · exact b2
          · have := a1.ge; have := a1.max; have := a2.max; omega
        · rename_i st2 h2
          obtain ⟨a2, b2, _⟩ := nextPseudo_adv E P hP st1 st2 none hmax1 b1 h2
          have hmax2 : st2.max = st2.line.size := by rw [a2.max, a2.line]; exact hmax1
          simp only []
          split
          · rename_i heq
            apply ih
            · exact hmax2
            · simp only []
              have := a1.max; have := a2.max; omega
            · simp only []
              have := a1.max; have := a2.max; omega
          · rename_i hne
            apply ih
            · exact hmax2
            · exact b2
            · have := a1.ge; have := a2.ge; have := a1.max; have := a2.max; omega
    · intro hc; cases hc

end XV.Tz

namespace XV.Tz
open XV XV.Rx

theorem measureIndent_le (tabsize : Nat) (line : Array Nat) : ∀ (fuel col pos : Nat), pos ≤ line.size →
    (measureIndent tabsize line fuel col pos).2 ≤ line.size := by
  intro fuel
  induction fuel with
  | zero => intro col pos h; simpa [measureIndent] using h
  | succ fuel ih =>
    intro col pos h
    unfold measureIndent
    split
    · rename_i hc; exact ih _ _ (Nat.succ_le_of_lt (getElem?_some_lt hc))
    · rename_i hc; exact ih _ _ (Nat.succ_le_of_lt (getElem?_some_lt hc))
    · rename_i hc; exact ih _ _ (Nat.succ_le_of_lt (getElem?_some_lt hc))
    · exact h

theorem dedents_err (col lnum pos : Nat) (line : List Nat) : ∀ (fuel : Nat) (ind : List Nat) (acc : List Tok5) (e : Err),
    dedents col lnum pos line fuel ind acc = .error e → e ≠ .loopFuel := by
  intro fuel
  induction fuel with
  | zero => intro ind acc e h; simp [dedents] at h
  | succ fuel ih =>
    intro ind acc e h
    unfold dedents at h
    split at h
    · cases h
    · split at h
      · split at h
        · injection h with h; subst h; simp
        · exact ih _ _ _ h
      · cases h

theorem nextStatement_spec (P : Pats) (st st' : TState) (ts : List Tok5) (a : StmtAction)
    (hmax : st.max = st.line.size) (hle : st.pos ≤ st.max)
    (h : nextStatement P st = .ok (ts, st', a)) :
    st'.line = st.line ∧ st'.max = st.max ∧ (a = .proceed → st'.pos ≤ st'.max) := by
  unfold nextStatement at h
  split at h
  · injection h with h; injection h with _ h; injection h with h1 h2; subst h1; subst h2
    exact ⟨rfl, rfl, by simp⟩
  · simp only [] at h
    split at h
    · injection h with h; injection h with _ h; injection h with h1 h2; subst h1; subst h2
      exact ⟨rfl, rfl, by simp⟩
    · split at h
      · split at h <;>
        · injection h with h; injection h with _ h; injection h with h1 h2; subst h1; subst h2
          exact ⟨rfl, rfl, by simp⟩
      · split at h
        · cases h
        · injection h with h; injection h with _ h; injection h with h1 h2; subst h1; subst h2
          refine ⟨rfl, rfl, fun _ => ?_⟩
          simp only []
          rw [hmax]
          exact measureIndent_le _ _ _ _ _ (by rw [← hmax]; exact hle)

theorem nextStatement_err (P : Pats) (st : TState) (e : Err) (h : nextStatement P st = .error e) : e ≠ .loopFuel := by
  unfold nextStatement at h
  split at h
  · cases h
  · simp only [] at h
    split at h
    · cases h
    · split at h
      · split at h <;> cases h
      · split at h
        · rename_i e' hd
          injection h with h; subst h
          exact dedents_err _ _ _ _ _ _ _ _ hd
        · cases h

end XV.Tz

namespace XV.Tz
open XV XV.Rx

theorem lineHead_err (E : Env) (P : Pats) (st : TState) (e : Err) (h : lineHead E P st = .error e) : e ≠ .loopFuel := by
  unfold lineHead at h
  split at h
  · split at h
    · rename_i e' he; injection h with h; subst h; exact handleEndProgs_err E P _ _ he
    · cases h
  · split at h
    · split at h
      · rename_i e' he; injection h with h; subst h; exact nextStatement_err P st _ he
      · cases h
      · cases h
      · cases h
    · split at h
      · injection h with h; subst h; simp
      · cases h

/-- what `lineHead` guarantees when the scan loop is entered -/
theorem lineHead_spec (E : Env) (P : Pats) (st s : TState) (ts : List Tok5) (cont brk : Bool)
    (hmax : st.max = st.line.size) (hle : st.pos ≤ st.max)
    (h : lineHead E P st = .ok (s, ts, cont, brk)) :
    s.max = s.line.size ∧ (cont = false → brk = false → s.pos ≤ s.max) := by
  unfold lineHead at h
  split at h
  · split at h
    · cases h
    · rename_i ts0 s0 h0
      injection h with h; injection h with h1 h; injection h with _ h; injection h with h2 h3
      subst h1
      obtain ⟨a, b⟩ := handleEndProgs_adv E P { st with continued := false } s0 ts0 hmax hle h0
      exact ⟨by rw [a.max, a.line]; exact hmax, fun _ _ => b⟩
  · split at h
    · split at h
      · cases h
      · rename_i ts0 s0 h0
        injection h with h; injection h with h1 h; injection h with _ h; injection h with h2 h3
        subst h1; subst h2
        obtain ⟨a, b, _⟩ := nextStatement_spec P st s0 ts0 _ hmax hle h0
        exact ⟨by rw [b, a]; exact hmax, fun hc => by simp at hc⟩
      · rename_i ts0 s0 h0
        injection h with h; injection h with h1 h; injection h with _ h; injection h with h2 h3
        subst h1; subst h3
        obtain ⟨a, b, _⟩ := nextStatement_spec P st s0 ts0 _ hmax hle h0
        exact ⟨by rw [b, a]; exact hmax, fun _ hc => by simp at hc⟩
      · rename_i ts0 s0 h0
        injection h with h; injection h with h1 h; injection h with _ h; injection h with h2 h3
        subst h1
        obtain ⟨a, b, c⟩ := nextStatement_spec P st s0 ts0 _ hmax hle h0
        exact ⟨by rw [b, a]; exact hmax, fun _ _ => c rfl⟩
    · split at h
      · cases h
      · injection h with h; injection h with h1 h; injection h with _ h; injection h with h2 h3
        subst h1
        exact ⟨hmax, fun _ _ => hle⟩

/-- at end of input (`readline()` returned ""), the loop stops: either an error or `break` -/
theorem lineHead_eof (E : Env) (P : Pats) (st s : TState) (ts : List Tok5) (cont brk : Bool)
    (hempty : st.line.isEmpty = true) (hpos : st.pos = 0)
    (h : lineHead E P st = .ok (s, ts, cont, brk)) : brk = true := by
  unfold lineHead at h
  split at h
  · rename_i hne
    -- handle_end_progs raises "EOF in multi-line string"
    split at h
    · cases h
    · rename_i ts0 s0 h0
      exfalso
      unfold handleEndProgs at h0
      split at h0
      · rename_i hnil; simp at hnil; simp [hnil] at hne
      · simp [hpos, hempty] at h0
  · split at h
    · unfold nextStatement at h
      simp [hempty] at h
      obtain ⟨_, _, _, h⟩ := h
      exact h
    · simp [hempty] at h

end XV.Tz

namespace XV.Tz
open XV XV.Rx

@[simp] theorem moveNextLine_max (st : TState) (l : List Nat) : (st.moveNextLine l).max = (st.moveNextLine l).line.size := by
  simp [TState.moveNextLine]
@[simp] theorem moveNextLine_pos (st : TState) (l : List Nat) : (st.moveNextLine l).pos = 0 := rfl

/-- The loop over lines never runs out of fuel when it has one unit per remaining line plus one. -/
theorem tokenizeLines_no_loopFuel (E : Env) (P : Pats) (hP : PseudoProgress P) :
    ∀ (fuel : Nat) (lines : List (List Nat)) (st : TState) (acc acc' : List Tok5),
      lines.length < fuel →
      tokenizeLines E P fuel lines st acc ≠ .error (.loopFuel, acc') := by
  intro fuel
  induction fuel with
  | zero => intro lines st acc acc' h; omega
  | succ fuel ih =>
    intro lines st acc acc' hlen
    unfold tokenizeLines
    split
    · rename_i e he
      intro hc; injection hc with hc; injection hc with hc _
      exact lineHead_err E P _ e he hc
    · rename_i s ts cont brk hh
      have hspec := lineHead_spec E P _ s ts cont brk (moveNextLine_max st _) (by simp) hh
      split
      · intro hc; cases hc
      · rename_i hbrk
        -- not `break`: the input was not exhausted, so `lines` is non-empty
        have hne : lines ≠ [] := by
          intro hnil
          subst hnil
          have := lineHead_eof E P _ s ts cont brk (by simp [TState.moveNextLine]) (by simp) hh
          exact hbrk this
        have htail : lines.tail.length < fuel := by
          cases lines with
          | nil => exact absurd rfl hne
          | cons l ls => simp at hlen ⊢; omega
        split
        · exact ih _ _ _ _ htail
        · rename_i hcont
          split
          · rename_i e he
            intro hc
            injection hc with hc
            rw [hc] at he
            exact scanLine_no_loopFuel E P hP _ s _ acc' hspec.1 (hspec.2 (by simpa using hcont) (by simpa using hbrk)) (by omega) he
          · exact ih _ _ _ _ htail

end XV.Tz
