/-
  Lemmas about the `proc_args` model (used by Properties/C06.lean).
-/
import XonshVerif.Model.ProcArgs
namespace XV

@[simp] theorem appendPiece_stop (t : Arg) (c : Piece) : (appendPiece t c).stop = c.stop := by
  cases t <;> cases c <;> simp [appendPiece, Arg.stop, Piece.stop, Piece.toArg]

@[simp] theorem appendPiece_start (t : Arg) (c : Piece) : (appendPiece t c).start = t.start := by
  cases t <;> cases c <;> simp [appendPiece, Arg.start, Piece.toArg]

@[simp] theorem toArg_start (p : Piece) : p.toArg.start = p.start := by cases p <;> rfl
@[simp] theorem toArg_stop (p : Piece) : p.toArg.stop = p.stop := by cases p <;> rfl

/-- Gluing a run: the first piece, then every further piece appended. -/
def glue (p : Piece) (ps : List Piece) : Arg := ps.foldl appendPiece p.toArg

theorem foldl_append_start (a : Arg) (ps : List Piece) :
    (ps.foldl appendPiece a).start = a.start := by
  induction ps generalizing a with
  | nil => rfl
  | cons p ps ih => simp [ih]

theorem foldl_append_stop (a : Arg) (p : Piece) (ps : List Piece) :
    ((p :: ps).foldl appendPiece a).stop = ((p :: ps).getLast (by simp)).stop := by
  induction ps generalizing a p with
  | nil => simp
  | cons q qs ih =>
    have := ih (appendPiece a p) q
    simp only [List.foldl_cons] at this ⊢
    rw [this]
    simp [List.getLast_cons]

/-- All pieces of a run are plain tokens: the glued expression is one constant holding the
    concatenation of the token strings. -/
def tokStrs : List Piece → Option (List (List Nat))
  | [] => some []
  | .tok s _ _ :: ps => (tokStrs ps).map (s :: ·)
  | _ :: _ => none

theorem foldl_tokens (v : List Nat) (a b : Pos) (ps : List Piece) (ss : List (List Nat))
    (h : tokStrs ps = some ss) :
    ∃ e, ps.foldl appendPiece (.const v a b) = .const (v ++ ss.flatten) a e := by
  induction ps generalizing v b ss with
  | nil => simp [tokStrs] at h; subst h; exact ⟨b, by simp⟩
  | cons p ps ih =>
    cases p with
    | tok s s0 e0 =>
      simp only [tokStrs, Option.map_eq_some_iff] at h
      obtain ⟨ss', hss', rfl⟩ := h
      obtain ⟨e, he⟩ := ih (v ++ s) e0 ss' hss'
      exact ⟨e, by simp [appendPiece, he, List.append_assoc]⟩
    | const _ _ _ => simp [tokStrs] at h
    | starred _ _ _ => simp [tokStrs] at h
    | node _ _ _ => simp [tokStrs] at h

/-- The maximal prefix of `ps` that continues without a gap from position `stop`, and the rest. -/
def takeRun (stop : Pos) : List Piece → List Piece × List Piece
  | [] => ([], [])
  | p :: ps =>
      if stop = p.start then ((p :: (takeRun p.stop ps).1), (takeRun p.stop ps).2)
      else ([], p :: ps)

theorem takeRun_length (stop : Pos) (ps : List Piece) : (takeRun stop ps).2.length ≤ ps.length := by
  induction ps generalizing stop with
  | nil => simp [takeRun]
  | cons p ps ih =>
    simp only [takeRun]
    split
    · exact Nat.le_succ_of_le (ih p.stop)
    · simp

theorem takeRun_append (stop : Pos) (ps : List Piece) :
    (takeRun stop ps).1 ++ (takeRun stop ps).2 = ps := by
  induction ps generalizing stop with
  | nil => simp [takeRun]
  | cons p ps ih =>
    simp only [takeRun]
    split
    · simp [ih]
    · simp

/-- Lemma A: with a stash, the loop glues the maximal gap-free continuation onto it, emits it, and
    restarts with an empty stash on the rest. -/
theorem procArgsAux_some (a : Arg) (ps : List Piece) :
    procArgsAux (some a) ps
      = ((takeRun a.stop ps).1.foldl appendPiece a) :: procArgsAux none (takeRun a.stop ps).2 := by
  induction ps generalizing a with
  | nil => simp [procArgsAux, takeRun]
  | cons p ps ih =>
    by_cases h : a.stop = p.start
    · have : adjacent a p = true := by simp [adjacent, h]
      simp only [procArgsAux, this, if_true, takeRun, h]
      rw [ih]
      simp
    · have : adjacent a p = false := by simp [adjacent, h]
      simp [procArgsAux, this, takeRun, h]

/-- The runs of a piece list (structural definition, independent of the loop): a new run starts
    wherever a piece does not start exactly where the previous one stopped. -/
def runs : List Piece → List (List Piece)
  | [] => []
  | [p] => [[p]]
  | p :: q :: rest =>
      match runs (q :: rest) with
      | [] => [[p]]
      | r :: rs => if p.stop = q.start then (p :: r) :: rs else [p] :: r :: rs

theorem runs_cons (p : Piece) (ps : List Piece) :
    runs (p :: ps) = (p :: (takeRun p.stop ps).1) :: runs (takeRun p.stop ps).2 := by
  induction ps generalizing p with
  | nil => simp [runs, takeRun]
  | cons q rest ih =>
    simp only [runs]
    rw [ih q]
    by_cases h : p.stop = q.start
    · simp [takeRun, h]
    · simp only [takeRun, h, if_false]
      rw [ih q]

def glueRun : List Piece → Option Arg
  | [] => none
  | p :: ps => some (glue p ps)

theorem procArgs_none_len (n : Nat) (ps : List Piece) (h : ps.length ≤ n) :
    procArgsAux none ps = (runs ps).filterMap glueRun := by
  induction n generalizing ps with
  | zero =>
    cases ps with
    | nil => simp [procArgsAux, runs]
    | cons p ps => simp at h
  | succ n ih =>
    cases ps with
    | nil => simp [procArgsAux, runs]
    | cons p ps =>
      simp only [procArgsAux]
      rw [procArgsAux_some, runs_cons]
      have hl : (takeRun p.toArg.stop ps).2.length ≤ n := by
        have := takeRun_length p.toArg.stop ps
        simp at h
        omega
      rw [ih _ hl]
      simp [glueRun, glue]

end XV
