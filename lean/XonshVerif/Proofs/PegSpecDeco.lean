/-
  C17 - the declarative PEG semantics does not look at rule decorators: programs with the same rule bodies (with or without
  `(memo)` flags, `logger`, ...) have the same derivations.  Mutual structural recursion mapping each derivation.
-/
import XonshVerif.Proofs.PegSpecDet
namespace XV.Peg
variable {P Q : Prog} {w : Array RTok}

/-- two programs with the same rule bodies (decorators - `memoize`, `logger`, `memoize_left_rec` - may differ) -/
def SameBodies (P Q : Prog) : Prop := ∀ id : Nat, (P[id]?).map Rule.body = (Q[id]?).map Rule.body

theorem SameBodies.symm (h : SameBodies P Q) : SameBodies Q P := fun id => (h id).symm

theorem SameBodies.lookup (h : SameBodies P Q) {id : Nat} {r : Rule} (hr : P[id]? = some r) : ∃ r', Q[id]? = some r' ∧ r'.body = r.body := by
  have := h id
  rw [hr] at this
  cases hq : Q[id]? with
  | none => rw [hq] at this; cases this
  | some r' => rw [hq] at this; simp only [Option.map_some, Option.some.injEq] at this; exact ⟨r', rfl, this.symm⟩

mutual
theorem SPrim.transport (hb : SameBodies P Q) {x : Prim} {p : Nat} {r : Option Nat} (h : SPrim P w x p r) : SPrim Q w x p r :=
  match h with
  | .hit q test _ t hq hw ht => .hit q test _ t hq hw ht
  | .miss q test _ t hq hw ht => .miss q test _ t hq hw ht
  | .rule id _ _ h' => .rule id _ _ (SRule.transport hb h')
termination_by structural h
theorem SRule.transport (hb : SameBodies P Q) {id : Nat} {p : Nat} {r : Option Nat} (h : SRule P w id p r) : SRule Q w id p r :=
  match h with
  | .mk _ _ _ rule hr hbd => by
    obtain ⟨r', hq, hbody⟩ := hb.lookup hr
    exact .mk id p r r' hq (hbody ▸ SBody.transport hb hbd)
termination_by structural h
theorem SBody.transport (hb : SameBodies P Q) {b : Body} {p : Nat} {r : Option Nat} (h : SBody P w b p r) : SBody Q w b p r :=
  match h with
  | .seqAlts ps _ _ h' => .seqAlts ps _ _ (SSeq.transport hb h')
  | .alts as wo ul _ _ h' => .alts as wo ul _ _ (SAlts.transport hb h')
termination_by structural h
theorem SSeq.transport (hb : SameBodies P Q) {ps : List Prim} {p : Nat} {r : Option Nat} (h : SSeq P w ps p r) : SSeq Q w ps p r :=
  match h with
  | .nil _ => .nil _
  | .hit q qs _ e h' => .hit q qs _ e (SPrim.transport hb h')
  | .miss q qs _ _ h' hs => .miss q qs _ _ (SPrim.transport hb h') (SSeq.transport hb hs)
termination_by structural h
theorem SAlts.transport (hb : SameBodies P Q) {as : List Alt} {p : Nat} {r : Option Nat} (h : SAlts P w as p r) : SAlts Q w as p r :=
  match h with
  | .nil _ => .nil _
  | .hit a as _ e c hi => .hit a as _ e c (SItems.transport hb hi)
  | .cut a as _ hi => .cut a as _ (SItems.transport hb hi)
  | .miss a as _ _ hi hs => .miss a as _ _ (SItems.transport hb hi) (SAlts.transport hb hs)
termination_by structural h
theorem SItems.transport (hb : SameBodies P Q) {its : List AltItem} {p : Nat} {c : Bool} {r : Option Nat} {c' : Bool}
    (h : SItems P w its p c r c') : SItems Q w its p c r c' :=
  match h with
  | .nil _ _ => .nil _ _
  | .setCut o its _ _ _ _ h' => .setCut o its _ _ _ _ (SItems.transport hb h')
  | .ok it its _ q _ _ _ hne hi hs => .ok it its _ q _ _ _ hne (SItem.transport hb hi) (SItems.transport hb hs)
  | .skip it its _ _ _ _ hne ho hi hs => .skip it its _ _ _ _ hne ho (SItem.transport hb hi) (SItems.transport hb hs)
  | .fail it its _ _ hne ho hi => .fail it its _ _ hne ho (SItem.transport hb hi)
termination_by structural h
theorem SItem.transport (hb : SameBodies P Q) {it : Item} {p : Nat} {r : Option Nat} (h : SItem P w it p r) : SItem Q w it p r :=
  match h with
  | .call q _ _ h' => .call q _ _ (SPrim.transport hb h')
  | .seqAlts ps _ _ h' => .seqAlts ps _ _ (SSeq.transport hb h')
  | .plusOk q _ n e h' => .plusOk q _ n e (SStar.transport hb h')
  | .plusFail q _ h' => .plusFail q _ (SStar.transport hb h')
  | .gatherOk el sp _ q n e h' hs => .gatherOk el sp _ q n e (SSeq.transport hb h') (SSep.transport hb hs)
  | .gatherFail el sp _ h' => .gatherFail el sp _ (SSeq.transport hb h')
  | .posOk q _ e h' => .posOk q _ e (SPrim.transport hb h')
  | .posFail q _ h' => .posFail q _ (SPrim.transport hb h')
  | .negOk q _ h' => .negOk q _ (SPrim.transport hb h')
  | .negFail q _ e h' => .negFail q _ e (SPrim.transport hb h')
  | .forced q what _ e h' => .forced q what _ e (SPrim.transport hb h')
termination_by structural h
theorem SStar.transport (hb : SameBodies P Q) {q : Prim} {p k e : Nat} (h : SStar P w q p k e) : SStar Q w q p k e :=
  match h with
  | .stop _ _ h' => .stop _ _ (SPrim.transport hb h')
  | .step _ _ e1 n _ h' hs => .step _ _ e1 n _ (SPrim.transport hb h') (SStar.transport hb hs)
termination_by structural h
theorem SSep.transport (hb : SameBodies P Q) {el sp : Prim} {p k e : Nat} (h : SSep P w el sp p k e) : SSep Q w el sp p k e :=
  match h with
  | .stopSep _ _ _ h' => .stopSep _ _ _ (SPrim.transport hb h')
  | .stopElem _ _ _ q h' hs => .stopElem _ _ _ q (SPrim.transport hb h') (SSeq.transport hb hs)
  | .step _ _ _ q r1 n _ h' hs hss => .step _ _ _ q r1 n _ (SPrim.transport hb h') (SSeq.transport hb hs) (SSep.transport hb hss)
termination_by structural h
end

/-- the semantics does not look at decorators -/
theorem srule_iff_of_sameBodies (hb : SameBodies P Q) (id p : Nat) (r : Option Nat) : SRule P w id p r ↔ SRule Q w id p r :=
  ⟨SRule.transport hb, SRule.transport hb.symm⟩

/-- a program with every `(memo)` flag removed -/
def dropMemo (P : Prog) : Prog := P.map (fun r => { r with deco := match r.deco with | .memo => .none | d => d })

theorem dropMemo_sameBodies (P : Prog) : SameBodies P (dropMemo P) := by
  intro id
  simp only [dropMemo, Array.getElem?_map, Option.map_map]
  cases P[id]? <;> rfl
end XV.Peg
