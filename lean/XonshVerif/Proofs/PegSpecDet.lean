/-
  C17 - the declarative PEG semantics of `PegSpec.lean` is DETERMINISTIC: two derivations for the same rule (item, choice,
  repetition ...) at the same position have the same outcome.  Mutual structural recursion on the first derivation.
-/
import XonshVerif.Proofs.PegSpec
namespace XV.Peg
variable {prog : Prog} {w : Array RTok}

mutual
theorem SPrim.det {q : Prim} {p : Nat} {r1 r2 : Option Nat} (h1 : SPrim prog w q p r1) (h2 : SPrim prog w q p r2) : r1 = r2 :=
  match h1 with
  | .hit _ test _ t hq hw ht => by
    cases h2 with
    | hit _ test' _ t' hq' hw' ht' => rfl
    | miss _ test' _ t' hq' hw' ht' =>
      rw [hq] at hq'; injection hq' with hq'; subst hq'
      rw [hw] at hw'; injection hw' with hw'; subst hw'
      rw [ht] at ht'; cases ht'
    | rule id _ _ h => cases hq
  | .miss _ test _ t hq hw ht => by
    cases h2 with
    | miss _ test' _ t' hq' hw' ht' => rfl
    | hit _ test' _ t' hq' hw' ht' =>
      rw [hq] at hq'; injection hq' with hq'; subst hq'
      rw [hw] at hw'; injection hw' with hw'; subst hw'
      rw [ht] at ht'; cases ht'
    | rule id _ _ h => cases hq
  | .rule id _ _ h => by
    cases h2 with
    | hit _ test' _ t' hq' hw' ht' => cases hq'
    | miss _ test' _ t' hq' hw' ht' => cases hq'
    | rule _ _ _ h' => exact SRule.det h h'
termination_by structural h1
theorem SRule.det {id : Nat} {p : Nat} {r1 r2 : Option Nat} (h1 : SRule prog w id p r1) (h2 : SRule prog w id p r2) : r1 = r2 :=
  match h1 with
  | .mk _ _ _ rule hr hb => by
    cases h2 with
    | mk _ _ _ rule' hr' hb' =>
      rw [hr] at hr'; injection hr' with hr'; subst hr'
      exact SBody.det hb hb'
termination_by structural h1
theorem SBody.det {b : Body} {p : Nat} {r1 r2 : Option Nat} (h1 : SBody prog w b p r1) (h2 : SBody prog w b p r2) : r1 = r2 :=
  match h1 with
  | .seqAlts ps _ _ h => by
    cases h2 with
    | seqAlts _ _ _ h' => exact SSeq.det h h'
  | .alts as wo ul _ _ h => by
    cases h2 with
    | alts _ _ _ _ _ h' => exact SAlts.det h h'
termination_by structural h1
theorem SSeq.det {ps : List Prim} {p : Nat} {r1 r2 : Option Nat} (h1 : SSeq prog w ps p r1) (h2 : SSeq prog w ps p r2) : r1 = r2 :=
  match h1 with
  | .nil _ => by cases h2; rfl
  | .hit q qs _ e h => by
    cases h2 with
    | hit _ _ _ e' h' => exact SPrim.det h h'
    | miss _ _ _ _ h' _ => exact absurd (SPrim.det h h') (by simp)
  | .miss q qs _ _ h hs => by
    cases h2 with
    | hit _ _ _ e' h' => exact absurd (SPrim.det h h') (by simp)
    | miss _ _ _ _ h' hs' => exact SSeq.det hs hs'
termination_by structural h1
theorem SAlts.det {as : List Alt} {p : Nat} {r1 r2 : Option Nat} (h1 : SAlts prog w as p r1) (h2 : SAlts prog w as p r2) : r1 = r2 :=
  match h1 with
  | .nil _ => by cases h2; rfl
  | .hit a as _ e c h => by
    cases h2 with
    | hit _ _ _ e' c' h' => exact (SItems.det h h').1
    | cut _ _ _ h' => exact (SItems.det h h').1
    | miss _ _ _ _ h' _ => exact absurd (SItems.det h h').1 (by simp)
  | .cut a as _ h => by
    cases h2 with
    | hit _ _ _ e' c' h' => exact (SItems.det h h').1
    | cut _ _ _ h' => rfl
    | miss _ _ _ _ h' _ => exact absurd (SItems.det h h').2 (by simp)
  | .miss a as _ _ h hs => by
    cases h2 with
    | hit _ _ _ e' c' h' => exact absurd (SItems.det h h').1 (by simp)
    | cut _ _ _ h' => exact absurd (SItems.det h h').2 (by simp)
    | miss _ _ _ _ h' hs' => exact SAlts.det hs hs'
termination_by structural h1
theorem SItems.det {its : List AltItem} {p : Nat} {c : Bool} {r1 r2 : Option Nat} {c1 c2 : Bool}
    (h1 : SItems prog w its p c r1 c1) (h2 : SItems prog w its p c r2 c2) : r1 = r2 ∧ c1 = c2 :=
  match h1 with
  | .nil _ _ => by cases h2; exact ⟨rfl, rfl⟩
  | .setCut o its _ _ _ _ h => by
    cases h2 with
    | setCut _ _ _ _ _ _ h' => exact SItems.det h h'
    | ok _ _ _ _ _ _ _ hne' => exact absurd rfl hne'
    | skip _ _ _ _ _ _ hne' => exact absurd rfl hne'
    | fail _ _ _ _ hne' => exact absurd rfl hne'
  | .ok it its _ q _ _ _ hne hi hs => by
    cases h2 with
    | setCut => exact absurd rfl hne
    | ok _ _ _ q' _ _ _ hne' hi' hs' =>
      have := SItem.det hi hi'
      injection this with this; subst this
      exact SItems.det hs hs'
    | skip _ _ _ _ _ _ hne' ho' hi' hs' => exact absurd (SItem.det hi hi') (by simp)
    | fail _ _ _ _ hne' ho' hi' => exact absurd (SItem.det hi hi') (by simp)
  | .skip it its _ _ _ _ hne ho hi hs => by
    cases h2 with
    | setCut => exact absurd rfl hne
    | ok _ _ _ q' _ _ _ hne' hi' hs' => exact absurd (SItem.det hi hi') (by simp)
    | skip _ _ _ _ _ _ hne' ho' hi' hs' => exact SItems.det hs hs'
    | fail _ _ _ _ hne' ho' hi' => rw [ho] at ho'; cases ho'
  | .fail it its _ _ hne ho hi => by
    cases h2 with
    | setCut => exact absurd rfl hne
    | ok _ _ _ q' _ _ _ hne' hi' hs' => exact absurd (SItem.det hi hi') (by simp)
    | skip _ _ _ _ _ _ hne' ho' hi' hs' => rw [ho] at ho'; cases ho'
    | fail _ _ _ _ hne' ho' hi' => exact ⟨rfl, rfl⟩
termination_by structural h1
theorem SItem.det {it : Item} {p : Nat} {r1 r2 : Option Nat} (h1 : SItem prog w it p r1) (h2 : SItem prog w it p r2) : r1 = r2 :=
  match h1 with
  | .call q _ _ h => by
    cases h2 with
    | call _ _ _ h' => exact SPrim.det h h'
  | .seqAlts ps _ _ h => by
    cases h2 with
    | seqAlts _ _ _ h' => exact SSeq.det h h'
  | .plusOk q _ n e h => by
    cases h2 with
    | plusOk _ _ n' e' h' => rw [(SStar.det h h').2]
    | plusFail _ _ h' => exact absurd (SStar.det h h').1 (by simp)
  | .plusFail q _ h => by
    cases h2 with
    | plusOk _ _ n' e' h' => exact absurd (SStar.det h h').1 (by simp)
    | plusFail _ _ h' => rfl
  | .gatherOk el sp _ q n e h hs => by
    cases h2 with
    | gatherOk _ _ _ q' n' e' h' hs' =>
      have := SSeq.det h h'
      injection this with this; subst this
      rw [(SSep.det hs hs').2]
    | gatherFail _ _ _ h' => exact absurd (SSeq.det h h') (by simp)
  | .gatherFail el sp _ h => by
    cases h2 with
    | gatherOk _ _ _ q' n' e' h' hs' => exact absurd (SSeq.det h h') (by simp)
    | gatherFail _ _ _ h' => rfl
  | .posOk q _ e h => by
    cases h2 with
    | posOk _ _ e' h' => rfl
    | posFail _ _ h' => exact absurd (SPrim.det h h') (by simp)
  | .posFail q _ h => by
    cases h2 with
    | posOk _ _ e' h' => exact absurd (SPrim.det h h') (by simp)
    | posFail _ _ h' => rfl
  | .negOk q _ h => by
    cases h2 with
    | negOk _ _ h' => rfl
    | negFail _ _ e' h' => exact absurd (SPrim.det h h') (by simp)
  | .negFail q _ e h => by
    cases h2 with
    | negOk _ _ h' => exact absurd (SPrim.det h h') (by simp)
    | negFail _ _ e' h' => rfl
  | .forced q what _ e h => by
    cases h2 with
    | forced _ _ _ e' h' => exact SPrim.det h h'
termination_by structural h1
theorem SStar.det {q : Prim} {p n1 n2 e1 e2 : Nat} (h1 : SStar prog w q p n1 e1) (h2 : SStar prog w q p n2 e2) : n1 = n2 ∧ e1 = e2 :=
  match h1 with
  | .stop _ _ h => by
    cases h2 with
    | stop _ _ h' => exact ⟨rfl, rfl⟩
    | step _ _ e n e' h' hs' => exact absurd (SPrim.det h h') (by simp)
  | .step _ _ e n e' h hs => by
    cases h2 with
    | stop _ _ h' => exact absurd (SPrim.det h h') (by simp)
    | step _ _ e2 n2 e2' h' hs' =>
      have := SPrim.det h h'
      injection this with this; subst this
      have := SStar.det hs hs'
      exact ⟨by rw [this.1], this.2⟩
termination_by structural h1
theorem SSep.det {el sp : Prim} {p n1 n2 e1 e2 : Nat} (h1 : SSep prog w el sp p n1 e1) (h2 : SSep prog w el sp p n2 e2) : n1 = n2 ∧ e1 = e2 :=
  match h1 with
  | .stopSep _ _ _ h => by
    cases h2 with
    | stopSep _ _ _ h' => exact ⟨rfl, rfl⟩
    | stopElem _ _ _ q' h' hs' => exact absurd (SPrim.det h h') (by simp)
    | step _ _ _ q' r' n' e' h' hs' hss' => exact absurd (SPrim.det h h') (by simp)
  | .stopElem _ _ _ q h hs => by
    cases h2 with
    | stopSep _ _ _ h' => exact absurd (SPrim.det h h') (by simp)
    | stopElem _ _ _ q' h' hs' => exact ⟨rfl, rfl⟩
    | step _ _ _ q' r' n' e' h' hs' hss' =>
      have := SPrim.det h h'
      injection this with this; subst this
      exact absurd (SSeq.det hs hs') (by simp)
  | .step _ _ _ q r n e h hs hss => by
    cases h2 with
    | stopSep _ _ _ h' => exact absurd (SPrim.det h h') (by simp)
    | stopElem _ _ _ q' h' hs' =>
      have := SPrim.det h h'
      injection this with this; subst this
      exact absurd (SSeq.det hs hs') (by simp)
    | step _ _ _ q' r' n' e' h' hs' hss' =>
      have := SPrim.det h h'
      injection this with this; subst this
      have := SSeq.det hs hs'
      injection this with this; subst this
      have := SSep.det hss hss'
      exact ⟨by rw [this.1], this.2⟩
termination_by structural h1
end
end XV.Peg
