/-
  Model of `Tokenizer.consume_with_macro_params` (peg_parser/tokenizer.py): raw capture of the body of a with-macro
  (`with! ctx: rest-of-line` or the indented block that follows) from the token generator, and of `textwrap.dedent`,
  which it applies to a block.
-/
import XonshVerif.Model.Basic
namespace XV.WithMacro
open XV

/-- a raw token with its `line` attribute -/
structure WTok where
  ty    : TT
  str   : List Nat
  start : Pos
  stop  : Pos
  line  : List Nat
deriving DecidableEq, Repr, Inhabited

/-- the local variables of the loop; `lines` is the dict in insertion order -/
structure WS where
  isIndented  : Bool := false
  block       : Bool := false
  bodyStarted : Bool := false
  indent      : Nat := 0
  lines       : List (Nat × List Nat) := []
deriving Repr, Inhabited

inductive Ctl where
  | go                         -- `continue` / fall out of the body: next token
  | stop (clearFlag : Bool)    -- `break`; `clearFlag`: `self._with_macro = False` was executed
deriving DecidableEq, Repr, Inhabited

def hasKey (ls : List (Nat × List Nat)) (k : Nat) : Bool := ls.any (·.1 = k)
/-- `lines.setdefault(k, v)` / `if k not in lines: lines[k] = v` -/
def setDefault (ls : List (Nat × List Nat)) (k : Nat) (v : List Nat) : List (Nat × List Nat) :=
  if hasKey ls k then ls else ls ++ [(k, v)]

/-- `s.split("\n")` -/
def splitNL : List Nat → List Nat → List (List Nat)
  | [], cur => [cur.reverse]
  | c :: cs, cur => if c = 10 then cur.reverse :: splitNL cs [] else splitNL cs (c :: cur)

/-- `line[: line.find("\n") + 1]` (`find` gives -1 when there is no line feed: the empty string) -/
def firstPhysical (line : List Nat) : List Nat :=
  match line.findIdx? (· = 10) with
  | some i => line.take (i + 1)
  | none => []

/-- the inner lines of a token spanning three or more lines: `enumerate(tok.string.split("\n")[1:-1], 1)` -/
def innerLines (s : List Nat) : List (List Nat) := ((splitNL s []).drop 1).dropLast

def addInner (ls : List (Nat × List Nat)) (first : Nat) : List (List Nat) → Nat → List (Nat × List Nat)
  | [], _ => ls
  | t :: ts, off => addInner (setDefault ls (first + off) (t ++ [10])) first ts (off + 1)

/-- the part of the loop body after the INDENT/DEDENT/NEWLINE prelude -/
def tail (tok : WTok) (s : WS) : WS :=
  let s1 := if tok.ty = .NL || tok.ty = .COMMENT then s else { s with bodyStarted := true }
  let lines1 :=
    if hasKey s1.lines tok.start.line then s1.lines
    else
      let line := if tok.start.line = tok.stop.line then tok.line else firstPhysical tok.line
      s1.lines ++ [(tok.start.line, if s1.block || !s1.lines.isEmpty then line else line.drop tok.start.col)]
  let lines2 := if tok.stop.line - tok.start.line > 1 then addInner lines1 tok.start.line (innerLines tok.str) 1 else lines1
  { s1 with lines := lines2 }

/-- NEWLINE: `if lines and tok.start[0] not in lines: lines[tok.start[0]] = tok.line or self.get_lines([tok.start[0]])[0]` -/
def nlState (getLine : Nat → List Nat) (tok : WTok) (s : WS) : WS :=
  if !s.lines.isEmpty && !hasKey s.lines tok.start.line then
    { s with lines := s.lines ++ [(tok.start.line, if tok.line.isEmpty then getLine tok.start.line else tok.line)] } else s

/-- one iteration; `getLine n` is `self.get_lines([n])[0]` -/
def step (getLine : Nat → List Nat) (idx : Nat) (tok : WTok) (s : WS) : WS × Ctl :=
  if idx = 0 && tok.ty = .NEWLINE then ({ s with block := true }, .go)
  else if tok.ty = .INDENT then
    if !s.isIndented && s.block && !s.bodyStarted then ({ s with isIndented := true, bodyStarted := true }, .go)
    else (tail tok { s with indent := s.indent + 1 }, .go)
  else if tok.ty = .DEDENT then
    if s.indent ≠ 0 then ({ s with indent := s.indent - 1 }, .go) else (s, .stop true)
  else if tok.ty = .NEWLINE then
    if !(nlState getLine tok s).isIndented then (nlState getLine tok s, .stop false)
    else if tok.str.isEmpty then (nlState getLine tok s, .go)
    else (tail tok (nlState getLine tok s), .go)
  else (tail tok s, .go)

/-- the `for idx, tok in enumerate(self._tokengen)` loop: final variables, tokens consumed, whether the flag was cleared -/
def loop (getLine : Nat → List Nat) : List WTok → Nat → WS → WS × Nat × Bool
  | [], idx, s => (s, idx, false)                       -- generator exhausted: the `for` ends, the flag stays set
  | t :: ts, idx, s =>
    match step getLine idx t s with
    | (s1, .go) => loop getLine ts (idx + 1) s1
    | (s1, .stop c) => (s1, idx + 1, c)

/-! ### `textwrap.dedent` -/

def isBlankCh (c : Nat) : Bool := c = 32 || c = 9
def leadingWs (l : List Nat) : List Nat := l.takeWhile isBlankCh

/-- split into lines KEEPING the line feeds -/
def linesKeep : List Nat → List Nat → List (List Nat)
  | [], [] => []
  | [], cur => [cur.reverse]
  | c :: cs, cur => if c = 10 then (c :: cur).reverse :: linesKeep cs [] else linesKeep cs (c :: cur)

/-- `_whitespace_only_re.sub('', text)`: a line made of blanks and tabs only loses them (its line feed stays) -/
def blankOut (l : List Nat) : List Nat :=
  let body := if l.getLast? = some 10 then l.dropLast else l
  if !body.isEmpty && body.all isBlankCh then (if l.getLast? = some 10 then [10] else []) else l

/-- does the line count for the margin?  `(^[ \t]*)(?:[^ \t\n])`: it has a character that is no blank, tab or line feed -/
def indentOf (l : List Nat) : Option (List Nat) :=
  match (l.dropWhile isBlankCh).head? with
  | some c => if c = 10 then none else some (leadingWs l)
  | none => none

def commonPrefix : List Nat → List Nat → List Nat
  | a :: as, b :: bs => if a = b then a :: commonPrefix as bs else []
  | _, _ => []

def margin (ls : List (List Nat)) : Option (List Nat) :=
  ls.foldl (fun m l =>
    match indentOf l with
    | none => m
    | some ind =>
      match m with
      | none => some ind
      | some mg => if mg.isPrefixOf ind then some mg else if ind.isPrefixOf mg then some ind else some (commonPrefix mg ind)) none

def dedent (text : List Nat) : List Nat :=
  let ls := (linesKeep text []).map blankOut
  match margin ls with
  | some mg => if mg.isEmpty then ls.flatten else (ls.map (fun l => if mg.isPrefixOf l then l.drop mg.length else l)).flatten
  | none => ls.flatten

/-- the string of the MACRO_PARAM token that is returned -/
def captured (s : WS) : List Nat :=
  let str := (s.lines.map (·.2)).flatten
  if s.isIndented then dedent str else str

def consumeWithMacro (getLine : Nat → List Nat) (gen : List WTok) : List Nat × Nat × Bool :=
  let (s, n, c) := loop getLine gen 0 {}
  (captured s, n, c)

end XV.WithMacro
