/-
  C03 (parser half): the well-formedness checker behind `parser_total`.

  The generated parser has no loop of its own; it can only fail to terminate through
  (a) `repeated` / `gathered` around something that can succeed without consuming a token
      (`while result := func(): ...` spins), or
  (b) a chain of rule calls that comes back to the same rule at the same position without passing
      the cache of a `@memoize_left_rec` rule.
  The checker excludes both with three untrusted witnesses that it re-checks in one linear pass:
  a set of possibly-nullable rules, a rank per rule that strictly decreases along every call that can
  happen at the position at which the caller was entered (unless the callee is a left-recursion
  leader, whose cache entry stops the descent), and the set of left-recursion leaders itself.
  The soundness theorem is in Proofs/PegTotal.lean.
-/
import XonshVerif.Model.Peg
namespace XV.Peg

/-- the witnesses (functions, so that a certificate can supply packed numbers) -/
structure WfW where
  nullable : Nat → Bool      -- rules that may succeed without consuming a token
  rank     : Nat → Nat
  lr       : Nat → Bool      -- rules decorated with `memoize_left_rec`

/-- certainly consumes a token when it succeeds -/
def primNN (W : WfW) : Prim → Bool
  | .rule id => !W.nullable id
  | _ => true

def itemNN (W : WfW) : Item → Bool
  | .call p | .repeated p | .forced p _ => primNN W p
  | .gathered e _ => primNN W e
  | .seqAlts ps => ps.all (primNN W)
  | .posLook _ | .negLook _ | .setCut | .guardInvalid => false

def altItemNN (W : WfW) (it : AltItem) : Bool := !it.opt && itemNN W it.item

def bodyNN (W : WfW) : Body → Bool
  | .alts as _ _ => as.all (fun a => a.items.any (altItemNN W))
  | .seqAlts ps => ps.all (primNN W)
  | .unmodelled => true

/-- a call that may happen at the position where rule `rid` was entered -/
def primOK (W : WfW) (rid : Nat) : Prim → Bool
  | .rule id => W.lr id || decide (W.rank id < W.rank rid)
  | _ => true

/-- loops must make progress wherever they stand -/
def itemLoopOK (W : WfW) : Item → Bool
  | .repeated p => primNN W p
  | .gathered e _ => primNN W e
  | _ => true

/-- the calls an item makes at its own start position -/
def itemFirstOK (W : WfW) (rid : Nat) : Item → Bool
  | .call p | .repeated p | .posLook p | .negLook p | .forced p _ => primOK W rid p
  | .gathered e _ => primOK W rid e
  | .seqAlts ps => ps.all (primOK W rid)
  | .setCut | .guardInvalid => true

def itemsOK (W : WfW) (rid : Nat) : List AltItem → Bool
  | [] => true
  | it :: its =>
    itemLoopOK W it.item && itemFirstOK W rid it.item &&
      (if altItemNN W it then its.all (fun j => itemLoopOK W j.item) else itemsOK W rid its)

def bodyOK (W : WfW) (rid : Nat) : Body → Bool
  | .alts as _ _ => as.all (fun a => itemsOK W rid a.items)
  | .seqAlts ps => ps.all (primOK W rid)
  | .unmodelled => true

def ruleOK (W : WfW) (rid : Nat) (r : Rule) : Bool :=
  (W.lr rid == (r.deco == .leftrec)) && (W.nullable rid || bodyNN W r.body) && bodyOK W rid r.body

def wfCertAux (W : WfW) : List Rule → Nat → Bool
  | [], _ => true
  | r :: rs, i => ruleOK W i r && wfCertAux W rs (i + 1)

def wfCert (prog : Prog) (W : WfW) : Bool := wfCertAux W prog.toList 0

/-- packed witnesses: bit masks and 10-bit ranks -/
def WfW.packed (nullMask lrMask rankN : Nat) : WfW :=
  { nullable := fun i => nullMask.testBit i, lr := fun i => lrMask.testBit i, rank := fun i => (rankN >>> (10 * i)) &&& 1023 }

end XV.Peg
