/-
  Model of `Tokenizer.get_last_non_whitespace_token` (peg_parser/tokenizer.py), which gives `Parser.span` - and with it
  every located AST node - its end position: the last token before the current index that is not ENDMARKER / NEWLINE /
  DEDENT / INDENT, or the very last token fetched when there is none.
-/
import XonshVerif.Model.Basic
namespace XV.Span
open XV

def structural (t : TT) : Bool := t = .ENDMARKER || t = .NEWLINE || t = .DEDENT || t = .INDENT

/-- the `while idx >= 0` loop, started at `idx = index - 1` (here: `n = idx + 1` candidates left) -/
def scanBack (tys : Array TT) : Nat → Option Nat
  | 0 => none
  | n + 1 =>
    match tys[n]? with
    | some t => if structural t then scanBack tys n else some n
    | none => scanBack tys n

/-- index (into the fetched tokens) of the token whose end a span takes; `index` is `self._index` -/
def lastNonWs (tys : Array TT) (index : Nat) : Nat :=
  match scanBack tys index with
  | some j => j
  | none => tys.size - 1

end XV.Span
