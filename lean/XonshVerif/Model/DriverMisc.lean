/-
  Driver requests for the small hand-written models: macro argument capture, make_arguments,
  _build_syntax_error, and the text-to-outcome pipeline.
-/
import XonshVerif.Model.Wire
import XonshVerif.Model.Macro
import XonshVerif.Model.WithMacro
import XonshVerif.Model.Span
import XonshVerif.Model.Concat
import XonshVerif.Model.ProcMacro
import XonshVerif.Model.Desugar
import XonshVerif.Model.Helpers
import XonshVerif.Model.Pipeline
import XonshVerif.Model.Lines
import XonshVerif.Model.DriverTok
import XonshVerif.Model.DriverPeg
import XonshVerif.Generated.ParserIR
namespace XV.Driver
open XV XV.Wire

def readPos (f : String) : Pos :=
  match f.splitOn ":" with
  | [l, c] => ⟨nat l, nat c⟩
  | _ => ⟨0, 0⟩

/-- token field: TYPE|str|l:c|l:c -/
def readTok (f : String) : Tok :=
  match f.splitOn "|" with
  | [ty, s, a, b] => { ty := TT.ofString ty, str := decStr s, start := readPos a, stop := readPos b }
  | _ => default

/-- token field with the line attribute: TYPE|str|l:c|l:c|line -/
def readWTok (f : String) : WithMacro.WTok :=
  match f.splitOn "|" with
  | [ty, s, a, b, ln] => { ty := TT.ofString ty, str := decStr s, start := readPos a, stop := readPos b, line := decStr ln }
  | _ => default

/-- `withmacro (n=line)* ## tok*` : `consume_with_macro_params` on the raw tokens it pulled; `n=line` is what
    `get_lines([n])` returns -> `param|<string>|consumed=<n>|cleared=<bool>` -/
def handleWithMacro (fs : List String) : String :=
  let table := (fs.takeWhile (· ≠ "##")).filterMap (fun f => match f.splitOn "=" with | [n, l] => some (nat n, decStr l) | _ => none)
  let toks := ((fs.dropWhile (· ≠ "##")).drop 1).map readWTok
  let getLine (n : Nat) : List Nat := ((table.find? (·.1 = n)).map (·.2)).getD []
  let (str, n, c) := WithMacro.consumeWithMacro getLine toks
  s!"param|{encStr str}|consumed={n}|cleared={c}"

/-- `span <index> <type>*` : `get_last_non_whitespace_token` on the fetched tokens -> index of the token it returns -/
def handleSpan (fs : List String) : String :=
  match fs with
  | idx :: tys => toString (Span.lastNonWs (tys.map TT.ofString).toArray (nat idx))
  | _ => "bad-request"

def readBool (f : String) : Bool := f = "1"
def encBool (b : Bool) : String := if b then "1" else "0"

def readVal (f : String) : Concat.Val :=
  match f.splitOn "." with
  | ["C", v, b, u, a, e] => .const (decStr v) (readBool b) (readBool u) (readPos a) (readPos e)
  | ["F", i] => .fmt (nat i)
  | _ => .fmt 0

def readVals (f : String) : List Concat.Val := if f = "-" then [] else (f.splitOn ";").map readVal

def encVal : Concat.Val → String
  | .const v b u a e => s!"C.{encStr v}.{encBool b}.{encBool u}.{encPos a}.{encPos e}"
  | .fmt i => s!"F.{i}"

def encVals (vs : List Concat.Val) : String := if vs.isEmpty then "-" else ";".intercalate (vs.map encVal)

def readPart (f : String) : Concat.Part :=
  match f.splitOn "|" with
  | ["T", v, b, u, a, e] => .tok (decStr v) (readBool b) (readBool u) (readPos a) (readPos e)
  | ["J", vs, a, e] => .joined (readVals vs) (readPos a) (readPos e)
  | _ => .joined [] ⟨0, 0⟩ ⟨0, 0⟩

/-- `concat part*` : `concatenate_strings` (without the path-literal wrapper) -/
def handleConcat (fs : List String) : String :=
  match Concat.concatStrings (fs.map readPart) with
  | .node (.const v b u a e) => s!"C|{encStr v}|{encBool b}|{encBool u}|{encPos a}|{encPos e}"
  | .node (.fmt _) => "bad-node"
  | .joinedStr vs a e => s!"J|{encVals vs}|{encPos a}|{encPos e}"
  | .mixError => "mixerr"

/-- `procmacro <spacechars> piece*` : `proc_macro_arg` -> the stripped text -/
def handleProcMacro (fs : List String) : String :=
  match fs with
  | sc :: pieces =>
    let E : Rx.Env := { wordChars := [], spaceChars := decStr sc }
    encStr (ProcMacro.procMacroArg E.isSpace (pieces.map decStr))
  | _ => "bad-request"

def readSp (f : String) : Desugar.Sp :=
  match f.splitOn "-" with
  | [a, b] => ⟨readPos a, readPos b⟩
  | _ => ⟨⟨0, 0⟩, ⟨0, 0⟩⟩

def encSp (sp : Desugar.Sp) : String := s!"{encPos sp.a}-{encPos sp.b}"

def readCtx (f : String) : Desugar.Ctx := if f = "Store" then .store else if f = "Del" then .del else .load
def encCtx : Desugar.Ctx → String | .load => "Load" | .store => "Store" | .del => "Del"

partial def dumpX : Desugar.X → String
  | .name id sp => s!"N({id};{encSp sp})"
  | .attr v a sp => s!"A({dumpX v};{a};{encSp sp})"
  | .const v sp => s!"C({encStr v};{encSp sp})"
  | .call f args sp => s!"K({dumpX f};[{"|".intercalate (args.map dumpX)}];{encSp sp})"
  | .subscript v sl c sp => s!"S({dumpX v};{dumpX sl};{encCtx c};{encSp sp})"
  | .starred v sp => s!"T({dumpX v};{encSp sp})"
  | .tuple es sp => s!"U([{"|".intercalate (es.map dumpX)}];{encSp sp})"
  | .hole i => s!"H({i})"

/-- `desugar <builder> ...` : the tree a xonsh builder makes (argument nodes are holes) -/
def handleDesugar (fs : List String) : String :=
  let holes (n : Nat) : List Desugar.X := (List.range n).map .hole
  match fs with
  | ["envname", v, c, sp] => dumpX (Desugar.expandEnvName (decStr v) (readCtx c) (readSp sp))
  | ["envexpr", c, sp] => dumpX (Desugar.expandEnvExpr (.hole 0) (readCtx c) (readSp sp))
  | ["proc", m, n, sp] => dumpX (Desugar.handleProc m (holes (nat n)) (readSp sp))
  | ["inject", n, sp] => dumpX (Desugar.procInject (holes (nat n)) (readSp sp))
  | ["pyexpr", sp] => dumpX (Desugar.procPyexpr (.hole 0) (readSp sp))
  | ["search", v, sp] => dumpX (Desugar.expandSearchPath (decStr v) (readSp sp))
  | "macrocall" :: sp :: ps =>
    dumpX (Desugar.macroCall (.hole 0) (ps.map (fun f => match f.splitOn "@" with | [v, s] => (decStr v, readSp s) | _ => ([], readSp ""))) (readSp sp))
  | ["entermacro", sp, v, bsp] => dumpX (Desugar.enterMacro (.hole 0) (decStr v) (readSp bsp) (readSp sp))
  | "help" :: atoms =>
    let as := atoms.zipIdx.map (fun (f, i) => match f.splitOn ";" with
      | [sp, id, sup, me] => ({ node := .hole i, sp := readSp sp, nameId := if id = "-" then none else some id, super := sup = "1", markEnd := readPos me } : Desugar.HelpAtom)
      | _ => default)
    match Desugar.expandHelp as with
    | some x => dumpX x
    | none => "error"
  | _ => "bad-request"

/-- `macro <spacechars> tok*` -/
def handleMacro (fs : List String) : String :=
  match fs with
  | sc :: toks =>
    let E : Rx.Env := { wordChars := [], spaceChars := decStr sc }
    let (out, consumed, pushed, rest) := Macro.consumeMacroParam E.isSpace (toks.map readTok)
    let o := match out with
      | .param s a b => s!"param|{encStr s}|{encPos a}|{encPos b}"
      | .blank s a b => s!"blank|{encStr s}|{encPos a}|{encPos b}"
      | .close t => s!"close|{encStr t.str}|{encPos t.start}|{encPos t.stop}"
      | .unmatched t => s!"unmatched|{encStr t.str}"
      | .eof => "eof"
    s!"{o} consumed={consumed.length} pushed={pushed} rest={rest.length}"
  | _ => "bad-request"

def readPairs (f : String) : Option (List (Nat × Option Nat)) :=
  if f = "N" then none
  else if f = "L" then some []
  else some (((f.drop 1).toString.splitOn ",").map (fun it =>
    match it.splitOn ":" with
    | [a, d] => (nat a, if d = "-" then none else some (nat d))
    | _ => (0, none)))

def readIds (f : String) : Option (List Nat) :=
  if f = "N" then none else if f = "L" then some [] else some (((f.drop 1).toString.splitOn ",").map nat)

def encOpt : Option Nat → String | none => "-" | some n => toString n

/-- `makeargs posOnly posOnlyWithDefault paramNoDefault paramDefault vararg kwpairs kwarg hasAfterStar` -/
def handleMakeArgs (fs : List String) : String :=
  match fs with
  | [a, b, c, d, va, kws, kwa, has] =>
    let after := if has = "1" then some ((if va = "-" then none else some (nat va)), (readPairs kws).getD [], (if kwa = "-" then none else some (nat kwa))) else none
    let r := Helpers.makeArguments (readPairs a) ((readPairs b).getD []) (readIds c) (readPairs d) after
    let l (xs : List Nat) := ",".intercalate (xs.map toString)
    s!"posonly=[{l r.posonlyargs}] args=[{l r.args}] defaults=[{l r.defaults}] vararg={encOpt r.vararg} kwonly=[{l r.kwonlyargs}] kwdefaults=[{",".intercalate (r.kwDefaults.map encOpt)}] kwarg={encOpt r.kwarg}"
  | _ => "bad-request"

/-- `builderr sl sc el ec (lineno=str)*` : lines not listed are "" -/
def handleBuildErr (fs : List String) : String :=
  match fs with
  | sl :: sc :: el :: ec :: ls =>
    let table : List (Nat × List Nat) := ls.map (fun f => match f.splitOn "=" with | [n, s] => (nat n, decStr s) | _ => (0, []))
    let lines (n : Nat) : List Nat := ((table.find? (·.1 = n)).map (·.2)).getD []
    let e := Helpers.buildError lines ⟨nat sl, nat sc⟩ ⟨nat el, nat ec⟩
    s!"lineno={e.lineno} offset={e.offset} end_lineno={e.endLineno} end_offset={e.endOffset} text={encStr e.text}"
  | _ => "bad-request"

def genTables (start : Nat) : Pipe.Tables :=
  { prog := Gen.prog, strings := Gen.strings.map cps, kws := Gen.keywords.map cps, softs := Gen.softKeywords.map cps, start := start }

/-- `pipeline <file|eval> <fuel> <wordchars> <spacechars> <src>` -/
def handlePipeline (fs : List String) : String :=
  match fs with
  | [mode, fuel, wc, sc, src] =>
    let E : Rx.Env := { wordChars := decStr wc, spaceChars := decStr sc }
    let start := if mode = "eval" then Gen.evalId else Gen.fileId
    match Pipe.parseString E genPats (genTables start) (nat fuel) (decStr src) with
    | .tokenizerError e a => s!"tokenizer-error {encErr e} assumed={a}"
    | .parsed o s1 => s!"{encOutcome o} pos={s1.pos} fetched={s1.fetched} peeks={s1.peeks} nexts={s1.nexts} resets={s1.resets} assumed={s1.assumed}"
  | _ => "bad-request"

/-- `getlines <file|string> <n1:n2:..|-> line*` : the texts `Tokenizer.get_lines` returns, joined by `;` -/
def handleGetLines (fs : List String) : String :=
  match fs with
  | mode :: nums :: lines =>
    let ns : List Nat := if nums = "-" then [] else (nums.splitOn ":").map nat
    let ls := lines.map decStr
    let res := if mode = "file" then Lines.getLinesFile ls ns else Lines.getLinesString ls ns
    ";".intercalate (res.map encStr)
  | _ => "bad-request"

end XV.Driver
