/-
  Model of `Parser._proc_args`, `_append_node_or_token`, `is_adjacent`
  (peg_parser/subheader.py).  In-place construction of ast nodes becomes construction of values
  of type `Arg`; only what the functions look at is kept: the kind of node, the string value of
  constants, the span.
-/
import XonshVerif.Model.Basic
namespace XV

/-- What `proc_cmd` hands to `proc_args`: a raw token (`cmd_name`: NAME/NUMBER/STRING/OP) or an
    already built node (env lookup, nested subprocess, help, search path, macro constant ...),
    of which `_append_node_or_token` only distinguishes Constant / Starred / Tuple / other. -/
inductive Piece where
  | tok     (s : List Nat) (start stop : Pos)
  | const   (s : List Nat) (start stop : Pos)      -- an ast.Constant node (e.g. from proc_macro_arg)
  | starred (id : Nat) (start stop : Pos)          -- @(...) and @$(...)
  | node    (id : Nat) (start stop : Pos)          -- any other expression node
deriving DecidableEq, Repr, Inhabited

def Piece.start : Piece → Pos
  | .tok _ a _ | .const _ a _ | .starred _ a _ | .node _ a _ => a
def Piece.stop : Piece → Pos
  | .tok _ _ b | .const _ _ b | .starred _ _ b | .node _ _ b => b

/-- The argument expressions `proc_args` builds. -/
inductive Arg where
  | const   (s : List Nat) (start stop : Pos)
  | starred (id : Nat) (start stop : Pos)
  | node    (id : Nat) (start stop : Pos)
  | tuple   (elts : List Arg) (start stop : Pos)
  | binop   (l r : Arg) (start stop : Pos)
deriving Repr, Inhabited

def Arg.start : Arg → Pos
  | .const _ a _ | .starred _ a _ | .node _ a _ | .tuple _ a _ | .binop _ _ a _ => a
def Arg.stop : Arg → Pos
  | .const _ _ b | .starred _ _ b | .node _ _ b | .tuple _ _ b | .binop _ _ _ b => b

/-- A piece seen as an expression: `ast.Constant(value=cmd.string, **cmd.loc())` for a token, the
    node itself otherwise. -/
def Piece.toArg : Piece → Arg
  | .tok s a b     => .const s a b
  | .const s a b   => .const s a b
  | .starred i a b => .starred i a b
  | .node i a b    => .node i a b

/-- `_append_node_or_token(tree, cmd)` with `tree` not None: the branches in source order. -/
def appendPiece (tree : Arg) (cmd : Piece) : Arg :=
  match tree, cmd with
  -- Constant + token: one longer constant
  | .const v a _, .tok s _ e          => .const (v ++ s) a e
  -- prefix@(...)
  | .const v a b, .starred i s e      => .tuple [.const v a b, .starred i s e] a e
  -- @(...)suffix  /  prefix@(...)suffix
  | .starred i a b, .tok s s0 e       => .tuple [.starred i a b, .const s s0 e] a e
  | .tuple es a _, .tok s s0 e        => .tuple (es ++ [.const s s0 e]) a e
  -- everything else: BinOp(Add)
  | t, c                              => .binop t c.toArg t.start c.stop

/-- `is_adjacent(prev, curr)`. -/
def adjacent (prev : Arg) (curr : Piece) : Bool := prev.stop = curr.start

/-- `_proc_args`: the generator as a fold with an explicit stash.
    (`if not stash` is `stash is None`: ast nodes are always truthy.) -/
def procArgsAux : Option Arg → List Piece → List Arg
  | none,   []        => []
  | some s, []        => [s]
  | none,   p :: ps   => procArgsAux (some p.toArg) ps
  | some s, p :: ps   =>
      if adjacent s p then procArgsAux (some (appendPiece s p)) ps
      else s :: procArgsAux (some p.toArg) ps

def procArgs (ps : List Piece) : List Arg := procArgsAux none ps

end XV
