/-
  Back-tracking regular expressions with the semantics of Python's `re` for the constructs that
  `peg_parser/tokenize.py` uses: literals, `.`, character sets (literals, ranges, `\w`, negation),
  sequence, ordered alternation, greedy `? * +`, lazy `*?`, positive/negative look-ahead, `\Z`.
  Capturing groups are transparent (the tokenizer only asks which TOP-LEVEL named branch matched
  and where the match ends; see `Branches`).
-/
import XonshVerif.Model.Basic
namespace XV.Rx

/-- Classification of non-ASCII characters is a parameter (never modelled): the harness sends,
    with every input, which of its non-ASCII code points Python calls alphanumeric / whitespace. -/
structure Env where
  wordChars  : List Nat      -- non-ASCII code points c with `chr(c).isalnum()`
  spaceChars : List Nat      -- non-ASCII code points c with `chr(c).isspace()`
deriving Repr, Inhabited

def isAsciiAlnum (c : Nat) : Bool :=
  (48 ≤ c && c ≤ 57) || (65 ≤ c && c ≤ 90) || (97 ≤ c && c ≤ 122)

/-- `\w` under re.UNICODE: alphanumeric or underscore. -/
def Env.isWord (E : Env) (c : Nat) : Bool :=
  if c < 128 then isAsciiAlnum c || c = 95 else E.wordChars.contains c

/-- `str.isspace` -/
def Env.isSpace (E : Env) (c : Nat) : Bool :=
  if c < 128 then (c = 32 || (9 ≤ c && c ≤ 13) || (28 ≤ c && c ≤ 31)) else E.spaceChars.contains c

inductive SetItem where
  | lit (c : Nat)
  | range (lo hi : Nat)
  | word            -- \w
deriving DecidableEq, Repr, Inhabited

inductive Re where
  | eps
  | chr (c : Nat)
  | notChr (c : Nat)                 -- [^c]
  | any                               -- `.` : anything but a newline
  | set (neg : Bool) (items : List SetItem)
  | seq (a b : Re)
  | alt (a b : Re)                    -- ordered choice
  | star (greedy : Bool) (r : Re)     -- r* / r*?
  | look (neg : Bool) (r : Re)        -- (?=r) / (?!r)
  | eoi                               -- \Z
deriving DecidableEq, Repr, Inhabited

def Re.opt (r : Re) : Re := .alt r .eps          -- r?  (greedy)
def Re.plus (g : Bool) (r : Re) : Re := .seq r (.star g r)
def Re.seqs : List Re → Re
  | [] => .eps
  | [r] => r
  | r :: rs => .seq r (seqs rs)
def Re.alts : List Re → Re
  | [] => .set false []     -- matches nothing
  | [r] => r
  | r :: rs => .alt r (alts rs)

def SetItem.has (E : Env) (c : Nat) : SetItem → Bool
  | .lit d => c = d
  | .range lo hi => lo ≤ c && c ≤ hi
  | .word => E.isWord c

/-- Sound syntactic check (see Proofs/Regex.lean): every match of `r` consumes at least one character. -/
def nonNull : Re → Bool
  | .eps => false
  | .chr _ | .notChr _ | .any | .set _ _ => true
  | .seq a b => nonNull a || nonNull b
  | .alt a b => nonNull a && nonNull b
  | .star _ _ => false
  | .look _ _ => false
  | .eoi => false

/-- Result of a match attempt. Fuel exhaustion must never look like "no match". -/
inductive MR where
  | matched (stop : Nat)
  | noMatch
  | fuelOut
deriving DecidableEq, Repr, Inhabited

/-- `m fuel E s r pos k`: match `r` against `s` from `pos`, continue with `k` (back-tracking into `r`
    when `k` fails).  Recursion on fuel only. -/
def m (E : Env) (s : Array Nat) : Nat → Re → Nat → (Nat → MR) → MR
  | 0, _, _, _ => .fuelOut
  | fuel + 1, r, pos, k =>
    match r with
    | .eps => k pos
    | .chr c => if s[pos]? = some c then k (pos + 1) else .noMatch
    | .notChr c => match s[pos]? with
        | some d => if d ≠ c then k (pos + 1) else .noMatch
        | none => .noMatch
    | .any => match s[pos]? with
        | some d => if d ≠ 10 then k (pos + 1) else .noMatch
        | none => .noMatch
    | .set neg items => match s[pos]? with
        | some d => if (items.any (·.has E d)) != neg then k (pos + 1) else .noMatch
        | none => .noMatch
    | .seq a b => m E s fuel a pos (fun p => m E s fuel b p k)
    | .alt a b =>
        match m E s fuel a pos k with
        | .noMatch => m E s fuel b pos k
        | other => other
    | .star true body =>
        -- greedy: one more iteration first (it must make progress), then stop here
        match m E s fuel body pos (fun p => if p > pos then m E s fuel (.star true body) p k else .noMatch) with
        | .noMatch => k pos
        | other => other
    | .star false body =>
        match k pos with
        | .noMatch => m E s fuel body pos (fun p => if p > pos then m E s fuel (.star false body) p k else .noMatch)
        | other => other
    | .look neg body =>
        match m E s fuel body pos (fun p => .matched p) with
        | .matched _ => if neg then .noMatch else k pos
        | .noMatch => if neg then k pos else .noMatch
        | .fuelOut => .fuelOut
    | .eoi => if pos = s.size then k pos else .noMatch

/-- `pattern.match(line, pos)`: end of the match, if any. -/
def matchAt (E : Env) (fuel : Nat) (r : Re) (s : Array Nat) (pos : Nat) : MR :=
  m E s fuel r pos (fun p => .matched p)

/-- A top-level alternation of named groups: `match.lastgroup` is the first branch that matches. -/
abbrev Branches := List (String × Re)

def matchBranches (E : Env) (fuel : Nat) : Branches → Array Nat → Nat → Option (String × Nat) ⊕ Unit
  | [], _, _ => .inl none
  | (name, r) :: rest, s, pos =>
    match matchAt E fuel r s pos with
    | .matched e => .inl (some (name, e))
    | .noMatch => matchBranches E fuel rest s pos
    | .fuelOut => .inr ()

end XV.Rx
