/-
  Small hand-written helpers of peg_parser/subheader.py: `make_arguments`, `_build_syntax_error`.
  (Their theorems are short and live here with the definitions; the property files re-export them.)
-/
import XonshVerif.Model.Basic
namespace XV.Helpers
open XV

/-! ### `Parser.make_arguments` (peg_parser/subheader.py) -/

structure Arguments where
  posonlyargs : List Nat
  args        : List Nat
  defaults    : List Nat
  vararg      : Option Nat
  kwonlyargs  : List Nat
  kwDefaults  : List (Option Nat)
  kwarg       : Option Nat
deriving DecidableEq, Repr, Inhabited

/-- parameters are identified by numbers, a default by `some expr-id`; `None` lists are `none` -/
def makeArguments (posOnly : Option (List (Nat × Option Nat))) (posOnlyWithDefault : List (Nat × Option Nat))
    (paramNoDefault : Option (List Nat)) (paramDefault : Option (List (Nat × Option Nat)))
    (afterStar : Option (Option Nat × List (Nat × Option Nat) × Option Nat)) : Arguments :=
  let defaults := posOnlyWithDefault.filterMap (·.2) ++ (paramDefault.getD []).filterMap (·.2)
  -- `pos_only = pos_only or pos_only_with_default` (an empty list is falsy)
  let posOnly' := match posOnly with | some (x :: xs) => x :: xs | _ => posOnlyWithDefault
  let params := paramNoDefault.getD [] ++ (paramDefault.getD []).map (·.1)
  let star := afterStar.getD (none, [], none)
  { posonlyargs := posOnly'.map (·.1), args := params, defaults := defaults, vararg := star.1,
    kwonlyargs := star.2.1.map (·.1), kwDefaults := star.2.1.map (·.2), kwarg := star.2.2 }

/-- **arguments_layout (kw).** `kw_defaults` and `kwonlyargs` always have the same length. -/
theorem kw_defaults_length (a b c d e) : (makeArguments a b c d e).kwDefaults.length = (makeArguments a b c d e).kwonlyargs.length := by
  simp [makeArguments]

/-- **arguments_layout (defaults).** For the five call shapes of the grammar (the first argument is either
    `None`/empty or the second one is empty), there are never more defaults than positional parameters. -/
theorem defaults_le_positional (a b c d e) (hshape : a = none ∨ a = some [] ∨ b = []) :
    (makeArguments a b c d e).defaults.length ≤ (makeArguments a b c d e).posonlyargs.length + (makeArguments a b c d e).args.length := by
  have h1 : (b.filterMap (·.2)).length ≤ b.length := List.length_filterMap_le _ _
  have h2 : ((d.getD []).filterMap (·.2)).length ≤ (d.getD []).length := List.length_filterMap_le _ _
  rcases hshape with h | h | h
  · subst h; simp [makeArguments]; omega
  · subst h; simp [makeArguments]; omega
  · subst h
    simp only [makeArguments, List.filterMap_nil, List.nil_append, List.length_map, List.length_append]
    omega

/-- parameter order is preserved: positional-only names are those given, in order, then the plain ones, then the defaulted ones -/
theorem args_order (a b c d e) : (makeArguments a b c d e).args = c.getD [] ++ (d.getD []).map (·.1) := by
  simp [makeArguments]

/-! ### `Parser._build_syntax_error` -/

structure SynErr where
  lineno : Nat
  endLineno : Nat
  offset : Nat
  endOffset : Nat
  text : List Nat
deriving DecidableEq, Repr, Inhabited

/-- `"\\n".join(parts)` : the separator is the two characters backslash, n -/
def joinLines : List (List Nat) → List Nat
  | [] => []
  | [l] => l
  | l :: ls => l ++ [92, 110] ++ joinLines ls

/-- `_build_syntax_error(message, start, end)` with explicit positions; `lines n` is `get_lines`' answer for
    line `n` (the empty string for a line it does not know). -/
def buildError (lines : Nat → List Nat) (start stop : Pos) : SynErr :=
  { lineno := start.line, offset := start.col + 1, endLineno := stop.line, endOffset := stop.col + 1,
    text := joinLines ((List.range (stop.line + 1 - start.line)).map (fun i => lines (start.line + i))) }

theorem joinLines_prefix (l : List Nat) (ls : List (List Nat)) : ∃ t, joinLines (l :: ls) = l ++ t := by
  cases ls with
  | nil => exact ⟨[], by simp [joinLines]⟩
  | cons x xs => exact ⟨[92, 110] ++ joinLines (x :: xs), by simp [joinLines]⟩

/-- **error_wellformed.**  If the reported span starts at a position inside the source (`1 ≤ line ≤ n+1`,
    column within that line) and does not end before it starts, the exception has a line number in range, a 1-based
    column no larger than the line length plus one, an end not before the start, and a `text` that begins with
    the source line at the reported line number. -/
theorem error_wellformed (lines : Nat → List Nat) (n : Nat) (start stop : Pos)
    (hl1 : 1 ≤ start.line) (hl2 : start.line ≤ n + 1) (hcol : start.col ≤ (lines start.line).length)
    (hle : start ≤ stop) :
    let e := buildError lines start stop
    1 ≤ e.lineno ∧ e.lineno ≤ n + 1 ∧ 1 ≤ e.offset ∧ e.offset ≤ (lines e.lineno).length + 1 ∧
    (e.lineno < e.endLineno ∨ (e.lineno = e.endLineno ∧ e.offset ≤ e.endOffset)) ∧
    ∃ t, e.text = lines e.lineno ++ t := by
  have hline : start.line ≤ stop.line := by
    rcases hle with h | ⟨h, _⟩
    · exact Nat.le_of_lt h
    · exact Nat.le_of_eq h
  refine ⟨hl1, hl2, by simp [buildError], by simp [buildError]; exact hcol, ?_, ?_⟩
  · rcases hle with h | ⟨h1, h2⟩
    · exact Or.inl h
    · exact Or.inr ⟨h1, by simp [buildError]; exact h2⟩
  · simp only [buildError]
    have : stop.line + 1 - start.line = (stop.line - start.line) + 1 := by omega
    rw [this, List.range_succ_eq_map, List.map_cons]
    simpa using joinLines_prefix (lines start.line) _

end XV.Helpers
