/-
  Model of `peg_parser/tokenize.py`: `TokenizerState`, `EndProg`, `next_statement`,
  `next_psuedo_matches`, `handle_fstring_progs`, `handle_end_progs`, `next_end_tokens`, `_tokenize`.
  The regular expressions are parameters (`Pats`): their values are regenerated from the source
  (Generated/Regexes.lean).  Generators become functions returning the tokens they yield.
-/
import XonshVerif.Model.Regex
namespace XV.Tz
open XV XV.Rx

/-- A raw token (the 5-tuple). -/
structure Tok5 where
  ty    : TT
  str   : List Nat
  start : Pos
  stop  : Pos
  line  : List Nat
deriving DecidableEq, Repr, Inhabited

/-- The patterns of tokenize.py. -/
structure Pats where
  pseudo      : Branches
  endpats     : List (String × Re)
  startLBrace : List (String × Re)
  endRBrace   : Re
  tabsize     : Nat
deriving Repr, Inhabited

inductive Mode where
  | none | middle (lvl : Int) | inBraces (lvl : Int) | inColon (lvl : Int)
deriving DecidableEq, Repr, Inhabited

/-- Which pattern an `EndProg` carries. -/
inductive PatKind where
  | endpat (quote : String)        -- endpats[quote]
  | fstr (quote : String)          -- choice(LBrace=StartLBrace[quote], End=endpats[quote])
  | rbrace                         -- choice(RBrace=EndRBrace)
  | empty                          -- "" (the prog pushed for `{`)
deriving DecidableEq, Repr, Inhabited

structure EndProg where
  mode     : Mode
  pat      : PatKind
  text     : List Nat
  contline : List Nat
  start    : Pos
  quote    : List Nat
deriving DecidableEq, Repr, Inhabited

structure TState where
  lnum      : Nat
  parenlev  : Int
  continued : Bool
  indents   : List Nat            -- innermost LAST (as in the Python list)
  line      : Array Nat
  pos       : Nat
  max       : Nat
  endProgs  : List EndProg        -- top of the stack FIRST
  commentLine : Bool              -- the current line holds nothing but a comment (`next_statement` said so)
deriving Repr, Inhabited

inductive Err where
  | tokenError (msg : String) (pos : Pos)
  | indentationError (lnum pos : Nat)
  | reFuel                 -- the regex matcher ran out of fuel (never a verdict: the driver reports it)
  | loopFuel               -- a scan loop ran out of fuel: THE HANG of C03 (proved impossible, Properties/C03.lean)
deriving DecidableEq, Repr, Inhabited

def TState.init : TState :=
  { lnum := 0, parenlev := 0, continued := false, indents := [0], line := #[], pos := 0, max := 0, endProgs := [], commentLine := false }

def slice (a : Array Nat) (i j : Nat) : List Nat := (a.extract i j).toList

def lookupPat (l : List (String × Re)) (q : String) : Re :=
  match l.find? (·.1 = q) with
  | some (_, r) => r
  | none => .set false []

def patBranches (P : Pats) : PatKind → Branches
  | .endpat q => [("", lookupPat P.endpats q)]
  | .fstr q => [("LBrace", lookupPat P.startLBrace q), ("End", lookupPat P.endpats q)]
  | .rbrace => [("RBrace", P.endRBrace)]
  | .empty => [("", .eps)]

def reFuel (st : TState) : Nat := 4000 + 400 * (st.max + 4)

def TState.inMiddle (st : TState) : Bool := match st.endProgs with | p :: _ => (match p.mode with | .middle _ => true | _ => false) | [] => false
def TState.inBraces (st : TState) : Bool := match st.endProgs with | p :: _ => (match p.mode with | .inBraces _ => true | _ => false) | [] => false
def TState.inColon (st : TState) : Bool := match st.endProgs with | p :: _ => (match p.mode with | .inColon _ => true | _ => false) | [] => false
def TState.inMultiLineString (st : TState) : Bool := match st.endProgs with | p :: _ => p.quote.length = 3 | [] => false
def TState.atParenlev (st : TState) : Bool :=
  match st.endProgs with
  | p :: _ => (match p.mode with | .middle l | .inBraces l | .inColon l => l = st.parenlev | .none => false)
  | [] => false

/-- `in_continued_string`: the line ends in backslash-newline (or backslash-CR-LF). -/
def TState.inContinuedString (st : TState) : Bool :=
  let l := st.line.toList
  let n := l.length
  !st.endProgs.isEmpty && ((l.drop (n - 2) = [92, 10]) || (l.drop (n - 3) = [92, 13, 10]))

/-- `pop_mode(end)` -/
def TState.popMode (st : TState) (e : Option Pos) : TState :=
  match st.endProgs with
  | [] => st
  | _ :: rest =>
    match rest, e with
    | p :: more, some pos => { st with endProgs := { p with start := pos, text := [], contline := [] } :: more }
    | _, _ => { st with endProgs := rest }

/-- `add_prog(start, end, **kwargs)` -/
def TState.addProg (st : TState) (s e : Nat) (mode : Mode) (pat : PatKind) (quote : List Nat) : TState :=
  { st with endProgs := { mode := mode, pat := pat, text := slice st.line s e, contline := st.line.toList,
                          start := ⟨st.lnum, s⟩, quote := quote } :: st.endProgs }

/-- `prog_token(end, tok)` -/
def TState.progToken (st : TState) (e : Nat) (ty : TT) : Tok5 × TState :=
  match st.endProgs with
  | [] => (default, st)
  | p :: rest =>
    let p' := { p with text := p.text ++ slice st.line st.pos e }
    ({ ty := ty, str := p'.text, start := p'.start, stop := ⟨st.lnum, e⟩, line := p'.contline },
     { st with endProgs := p' :: rest, pos := e })

/-- `move_next_line` (the reader is a list of remaining lines; "" at end of input). -/
def TState.moveNextLine (st : TState) (line : List Nat) : TState :=
  { st with line := line.toArray, lnum := st.lnum + 1, pos := 0, max := line.length, commentLine := false }

def rstripNewlines (l : List Nat) : List Nat :=
  (l.reverse.dropWhile (fun c => c = 13 || c = 10)).reverse

def stripSpace (E : Env) (l : List Nat) : List Nat :=
  ((l.dropWhile E.isSpace).reverse.dropWhile E.isSpace).reverse

inductive StmtAction where | continueLoop | breakLoop | proceed
deriving DecidableEq, Repr

/-- measure leading whitespace: returns (column, new pos) -/
def measureIndent (tabsize : Nat) (line : Array Nat) : Nat → Nat → Nat → Nat × Nat
  | 0, col, pos => (col, pos)
  | fuel + 1, col, pos =>
    match line[pos]? with
    | some 32 => measureIndent tabsize line fuel (col + 1) (pos + 1)
    | some 9 => measureIndent tabsize line fuel ((col / tabsize + 1) * tabsize) (pos + 1)
    | some 12 => measureIndent tabsize line fuel 0 (pos + 1)
    | _ => (col, pos)

/-- the `while column < indents[-1]` loop: DEDENT tokens or an IndentationError -/
def dedents (col : Nat) (lnum pos : Nat) (line : List Nat) : Nat → List Nat → List Tok5 → Except Err (List Nat × List Tok5)
  | 0, indents, acc => .ok (indents, acc)
  | fuel + 1, indents, acc =>
    match indents.getLast? with
    | none => .ok (indents, acc)
    | some top =>
      if col < top then
        if !indents.contains col then .error (.indentationError lnum pos)
        else
          dedents col lnum pos line fuel indents.dropLast
            (acc ++ [{ ty := .DEDENT, str := [], start := ⟨lnum, pos⟩, stop := ⟨lnum, pos⟩, line := line }])
      else .ok (indents, acc)

/-- `next_statement` -/
def nextStatement (P : Pats) (st : TState) : Except Err (List Tok5 × TState × StmtAction) :=
  if st.line.isEmpty then .ok ([], st, .breakLoop)
  else
    let (column, pos) := measureIndent P.tabsize st.line (st.max + 1) 0 st.pos
    let st := { st with pos := pos }
    if pos ≥ st.max then .ok ([], st, .breakLoop)
    else
      let c := st.line[pos]?.getD 0
      let lineL := st.line.toList
      if c = 35 || c = 13 || c = 10 then
        if c = 35 then
          let comment := rstripNewlines (lineL.drop pos)
          let t1 : Tok5 := { ty := .COMMENT, str := comment, start := ⟨st.lnum, pos⟩, stop := ⟨st.lnum, pos + comment.length⟩, line := lineL }
          let pos2 := pos + comment.length
          let t2 : Tok5 := { ty := .NL, str := lineL.drop pos2, start := ⟨st.lnum, pos2⟩, stop := ⟨st.lnum, lineL.length⟩, line := lineL }
          .ok ([t1, t2], { st with pos := pos2, commentLine := true }, .continueLoop)
        else
          let t2 : Tok5 := { ty := .NL, str := lineL.drop pos, start := ⟨st.lnum, pos⟩, stop := ⟨st.lnum, lineL.length⟩, line := lineL }
          .ok ([t2], st, .continueLoop)
      else
        let top := st.indents.getLast?.getD 0
        let (indents1, toks1) :=
          if column > top then
            (st.indents ++ [column],
             [({ ty := .INDENT, str := lineL.take pos, start := ⟨st.lnum, 0⟩, stop := ⟨st.lnum, pos⟩, line := lineL } : Tok5)])
          else (st.indents, [])
        match dedents column st.lnum pos lineL (indents1.length + 1) indents1 toks1 with
        | .error e => .error e
        | .ok (indents2, toks2) => .ok (toks2, { st with indents := indents2 }, .proceed)

def containsF (tok : List Nat) : Bool := tok.any (fun c => c = 102 || c = 70)   -- "f" in token.lower()

/-- the quote of a StringStart match: `match.group("Quote")` -/
def quoteOf (tok : List Nat) : List Nat :=
  let n := tok.length
  let last3 := tok.drop (n - 3)
  if last3 = [39, 39, 39] || last3 = [34, 34, 34] then last3 else tok.drop (n - 1)

def strOfCps (l : List Nat) : String := String.ofList (l.map Char.ofNat)

/-- the token `TokenInfo(type, line[start:end], (lnum,start), (lnum,end), line)` -/
def mkTok (st : TState) (start e : Nat) (ty : TT) : Tok5 :=
  { ty := ty, str := slice st.line start e, start := ⟨st.lnum, start⟩, stop := ⟨st.lnum, e⟩, line := st.line.toList }

/-- the `Special` (operator) branch: bracket depth and f-string mode bookkeeping -/
def specialAction (st : TState) (start e : Nat) : TState :=
  if (slice st.line start e).getLast?.getD 0 = 40 || (slice st.line start e).getLast?.getD 0 = 91
      || (slice st.line start e).getLast?.getD 0 = 123 then                                  -- token[-1] in "([{"
    { st with parenlev := st.parenlev + 1 }
  else if slice st.line start e = [41] || slice st.line start e = [93] || slice st.line start e = [125] then  -- token in ")]}"
    { (if st.inBraces && st.atParenlev then st.popMode (some ⟨st.lnum, e⟩) else st) with
        parenlev := if (if st.inBraces && st.atParenlev then st.popMode (some ⟨st.lnum, e⟩) else st).parenlev - 1 < 0 then 0
                    else (if st.inBraces && st.atParenlev then st.popMode (some ⟨st.lnum, e⟩) else st).parenlev - 1 }
  else if slice st.line start e = [58] && st.inBraces && st.atParenlev then
    st.addProg (start + 1) e (.inColon st.parenlev) .rbrace []
  else st

/-- What `next_psuedo_matches` does once the master regex matched group `group` over `[start, e)`;
    `st` already has `pos = e`. -/
def pseudoAction (st : TState) (group : String) (start e : Nat) : Except Err (Option Tok5 × TState) :=
  if group = "StringStart" then
    if containsF (slice st.line start e) then
      .ok (some (mkTok st start e .FSTRING_START),
           st.addProg e e (.middle st.parenlev) (.fstr (strOfCps (quoteOf (slice st.line start e)))) (quoteOf (slice st.line start e)))
    else
      .ok (none, st.addProg start e .none (.endpat (strOfCps (quoteOf (slice st.line start e)))) (quoteOf (slice st.line start e)))
  else if group = "ws" then .ok (some (mkTok st start e .WS), st)
  else if group = "Comment" then .ok (some (mkTok st start e .COMMENT), st)
  else if group = "SearchPath" then .ok (some (mkTok st start e .SEARCH_PATH), st)
  else if group = "Name" then .ok (some (mkTok st start e .NAME), st)
  else if group = "Number" || ((slice st.line start e).head? = some 46 && slice st.line start e ≠ [46] && slice st.line start e ≠ [46, 46, 46]) then
    .ok (some (mkTok st start e .NUMBER), st)
  else if group = "NL" then .ok (some (mkTok st start e (if st.parenlev > 0 then .NL else .NEWLINE)), st)
  else if group = "Special" then .ok (some (mkTok st start e .OP), specialAction st start e)
  else if group = "End" then .ok (none, { st with continued := true })
  else .error (.tokenError "Bad token" ⟨st.lnum, start⟩)

/-- `next_psuedo_matches` : the token it returns (if any) and the new state. -/
def nextPseudoMatches (E : Env) (P : Pats) (st : TState) : Except Err (Option Tok5 × TState) :=
  if st.pos = st.max || st.inMiddle then .ok (none, st)
  else
    match matchBranches E (reFuel st) P.pseudo st.line st.pos with
    | .inr () => .error .reFuel
    | .inl none => .ok (none, st)
    | .inl (some (group, e)) => pseudoAction { st with pos := e } group st.pos e

/-- `if (middle_end > state.pos) or endprog.text: yield state.prog_token(middle_end, FSTRING_MIDDLE)` -/
def emitMiddle (st : TState) (middleEnd : Nat) (prog : EndProg) : List Tok5 × TState :=
  if middleEnd > st.pos || !prog.text.isEmpty then
    ([(st.progToken middleEnd .FSTRING_MIDDLE).1], (st.progToken middleEnd .FSTRING_MIDDLE).2)
  else ([], st)

/-- `handle_fstring_progs`: tokens, new state, whether something matched. -/
def handleFstringProgs (E : Env) (P : Pats) (st : TState) : Except Err (List Tok5 × TState × Bool) :=
  match st.endProgs with
  | [] => .ok ([], st, false)
  | prog :: _ =>
    match matchBranches E (reFuel st) (patBranches P prog.pat) st.line st.pos with
    | .inr () => .error .reFuel
    | .inl none => .ok ([], st, false)
    | .inl (some (group, e)) =>
      if group = "" then .ok ([], st, false)      -- `not endmatch.lastgroup`
      else
      let lineL := st.line.toList
      if group = "End" then
        let middleEnd := e - prog.quote.length
        let toks := (emitMiddle st middleEnd prog).1
        let st1 := (emitMiddle st middleEnd prog).2
        let tEnd : Tok5 := { ty := .FSTRING_END, str := prog.quote, start := ⟨st1.lnum, st1.pos⟩, stop := ⟨st1.lnum, e⟩, line := lineL }
        let st2 := st1.popMode none
        .ok (toks ++ [tEnd], { st2 with pos := e }, true)
      else
        let middleEnd := e - 1
        let toks := (emitMiddle st middleEnd prog).1
        let st1 := (emitMiddle st middleEnd prog).2
        if group = "LBrace" then
          let t : Tok5 := { ty := .OP, str := [123], start := ⟨st1.lnum, st1.pos⟩, stop := ⟨st1.lnum, e⟩, line := lineL }
          let st2 := { st1 with parenlev := st1.parenlev + 1 }
          let st3 := st2.addProg e e (.inBraces st2.parenlev) .empty []
          .ok (toks ++ [t], { st3 with pos := e }, true)
        else
          let t : Tok5 := { ty := .OP, str := [125], start := ⟨st1.lnum, st1.pos⟩, stop := ⟨st1.lnum, e⟩, line := lineL }
          let st2 := { st1 with parenlev := st1.parenlev - 1 }
          let st3 := (st2.popMode none).popMode (some ⟨st2.lnum, e⟩)
          .ok (toks ++ [t], { st3 with pos := e }, true)

/-- first half of `handle_end_progs`: the f-string scanner or the plain-string end pattern.
    Returns (tokens, state, matched, returned early). -/
def endProgStep (E : Env) (P : Pats) (st : TState) (prog : EndProg) : Except Err (List Tok5 × TState × Bool × Bool) :=
  if st.inMiddle || st.inColon then
    match handleFstringProgs E P st with
    | .error e => .error e
    | .ok (ts, s, m) => .ok (ts, s, m, false)
  else
    match matchBranches E (reFuel st) (patBranches P prog.pat) st.line st.pos with
    | .inr () => .error .reFuel
    | .inl (some (_, e)) => .ok ([(st.progToken e .STRING).1], (st.progToken e .STRING).2.popMode none, true, true)
    | .inl none => .ok ([], st, false, false)

/-- second half: join the rest of the line onto a multi-line / continued string, or complain -/
def endProgFinish (ts : List Tok5) (s : TState) (matched early : Bool) : Except Err (List Tok5 × TState) :=
  if early then .ok (ts, s)
  else if s.inBraces || s.endProgs.isEmpty then .ok (ts, s)
  else if matched then .ok (ts, s)      -- a piece of the f-string was consumed: the scan loop comes back for the rest
  else if s.pos = 0 || s.inMultiLineString || s.inContinuedString then
    match s.endProgs with
    | [] => .ok (ts, s)
    | p :: rest =>
      .ok (ts, { s with endProgs := { p with text := p.text ++ slice s.line s.pos s.line.size, contline := p.contline ++ s.line.toList } :: rest,
                        pos := s.max })
  else if !matched then
    .error (.tokenError "unterminated string literal" (match s.endProgs with | p :: _ => p.start | [] => ⟨0, 0⟩))
  else .ok (ts, s)

/-- `handle_end_progs` -/
def handleEndProgs (E : Env) (P : Pats) (st : TState) : Except Err (List Tok5 × TState) :=
  match st.endProgs with
  | [] => .ok ([], st)
  | prog :: _ =>
    if st.pos = 0 && st.line.isEmpty then .error (.tokenError "EOF in multi-line string" prog.start)
    else if st.inBraces then .ok ([], st)
    else
      match endProgStep E P st prog with
      | .error e => .error e
      | .ok (ts, s, matched, early) => endProgFinish ts s matched early

/-- the inner `while state.pos < state.max` loop of `_tokenize` -/
def scanLine (E : Env) (P : Pats) : Nat → TState → List Tok5 → Except (Err × List Tok5) (TState × List Tok5)
  | 0, _, acc => .error (.loopFuel, acc)
  | fuel + 1, st, acc =>
    if st.pos < st.max then
      let pos0 := st.pos
      match handleEndProgs E P st with
      | .error e => .error (e, acc)
      | .ok (ts1, st1) =>
        match nextPseudoMatches E P st1 with
        | .error e => .error (e, acc ++ ts1)
        | .ok (some t, st2) => scanLine E P fuel st2 (acc ++ ts1 ++ [t])
        | .ok (none, st2) =>
          if pos0 = st2.pos then
            let c := st2.line[st2.pos]?.getD 0
            let t : Tok5 := { ty := .ERRORTOKEN, str := [c], start := ⟨st2.lnum, st2.pos⟩, stop := ⟨st2.lnum, st2.pos + 1⟩, line := st2.line.toList }
            scanLine E P fuel { st2 with pos := st2.pos + 1 } (acc ++ ts1 ++ [t])
          else scanLine E P fuel st2 (acc ++ ts1)
    else .ok (st, acc)

/-- `next_end_tokens`; `ll` is `state.last_line` (the line read before the one on which the loop stopped) and
    `lc` is `state.last_comment_line` (that line held nothing but a comment) -/
def nextEndTokens (ll : List Nat) (lc : Bool) (st : TState) : List Tok5 :=
  let nl : List Tok5 :=
    match ll.getLast? with
    | some c =>
      if c ≠ 13 && c ≠ 10 && !lc then
        [{ ty := .NEWLINE, str := [], start := ⟨st.lnum - 1, ll.length⟩, stop := ⟨st.lnum - 1, ll.length + 1⟩, line := [] }]
      else []
    | none => []
  let ded : List Tok5 := (st.indents.drop 1).map (fun _ => { ty := .DEDENT, str := [], start := ⟨st.lnum, 0⟩, stop := ⟨st.lnum, 0⟩, line := [] })
  nl ++ ded ++ [{ ty := .ENDMARKER, str := [], start := ⟨st.lnum, 0⟩, stop := ⟨st.lnum, 0⟩, line := [] }]

/-- What `_tokenize` does with a freshly read line before the scan loop:
    returns (state, tokens, `continue`?, `break`?). -/
def lineHead (E : Env) (P : Pats) (st : TState) : Except Err (TState × List Tok5 × Bool × Bool) :=
  if !st.endProgs.isEmpty then
    -- `state.continued = False`: a backslash continuation inside f-string braces ends with its line, too
    match handleEndProgs E P { st with continued := false } with
    | .error e => .error e
    | .ok (ts, s) => .ok (s, ts, false, false)
  else if st.parenlev = 0 && !st.continued then
    match nextStatement P st with
    | .error e => .error e
    | .ok (ts, s, .continueLoop) => .ok (s, ts, true, false)
    | .ok (ts, s, .breakLoop) => .ok (s, ts, false, true)
    | .ok (ts, s, .proceed) => .ok (s, ts, false, false)
  else if st.line.isEmpty then .error (.tokenError "EOF in multi-line statement" ⟨st.lnum, 0⟩)
  else .ok ({ st with continued := false }, [], false, false)

/-- The loop over lines. `lines` are the remaining physical lines; after them readline returns "". -/
def tokenizeLines (E : Env) (P : Pats) : Nat → List (List Nat) → TState → List Tok5 → Except (Err × List Tok5) (List Tok5)
  | 0, _, _, acc => .error (.loopFuel, acc)
  | fuel + 1, lines, st, acc =>
    match lineHead E P (st.moveNextLine (lines.headD [])) with
    | .error e => .error (e, acc)
    | .ok (s, ts, cont, brk) =>
      if brk then .ok (acc ++ ts ++ nextEndTokens st.line.toList st.commentLine s)
      else if cont then tokenizeLines E P fuel lines.tail s (acc ++ ts)
      else
        match scanLine E P (2 * s.max + 4) s (acc ++ ts) with
        | .error e => .error e
        | .ok (s2, acc2) => tokenizeLines E P fuel lines.tail s2 acc2

/-- Split a source text into physical lines as `io.StringIO(...).readline` does (split after every LF). -/
def splitLines : List Nat → List Nat → List (List Nat)
  | [], [] => []
  | [], cur => [cur.reverse]
  | c :: cs, cur => if c = 10 then (c :: cur).reverse :: splitLines cs [] else splitLines cs (c :: cur)

structure Run where
  toks : List Tok5
  err  : Option Err
deriving Repr, Inhabited

/-- `list(generate_tokens(text))` -/
def tokenize (E : Env) (P : Pats) (src : List Nat) : Run :=
  let lines := splitLines src []
  match tokenizeLines E P (lines.length + 2) lines TState.init [] with
  | .ok ts => { toks := ts, err := none }
  | .error (e, ts) => { toks := ts, err := some e }

end XV.Tz
