/-
  Model of `Parser.concatenate_strings` / `_concat_strings_in_constant` (peg_parser/subheader.py): how adjacent string
  tokens and f-strings (`ast.JoinedStr`) are merged into one `ast.Constant` or one `ast.JoinedStr`.
  `literal_eval` is outside the model: a STRING token comes with its evaluated value; a `FormattedValue` is opaque.
  The path-literal wrapper (`p"..."`) is outside the model too (the harness compares the wrapped node).
-/
import XonshVerif.Model.Basic
namespace XV.Concat
open XV

inductive Val where
  | const (s : List Nat) (bytes : Bool) (u : Bool) (start stop : Pos)
  | fmt (id : Nat)
deriving DecidableEq, Repr, Inhabited

inductive Part where
  | tok (value : List Nat) (bytes : Bool) (u : Bool) (start stop : Pos)   -- a STRING token, `u`: its text starts with "u"
  | joined (vals : List Val) (start stop : Pos)                             -- an f-string
deriving DecidableEq, Repr, Inhabited

inductive Out where
  | node (v : Val)                                    -- a plain `ast.Constant`
  | joinedStr (vals : List Val) (start stop : Pos)
  | mixError                                          -- "cannot mix bytes and nonbytes literals"
deriving DecidableEq, Repr, Inhabited

structure TokP where
  value : List Nat
  bytes : Bool
  u : Bool
  start : Pos
  stop : Pos
deriving Repr, Inhabited

/-- `_concat_strings_in_constant(parts)`; `none` = the bytes/str mix error -/
def concatTokens : List TokP → Option Val
  | [] => none
  | t :: ts =>
    if ts.all (fun x => x.bytes == t.bytes) then
      some (.const (t.value ++ (ts.map (·.value)).flatten) t.bytes t.u t.start ((t :: ts).getLast?.getD t).stop)
    else none

/-- the loop over the parts: (values so far, pending tokens, seen an f-string); `none` = error -/
def gather : List Part → List Val → List TokP → Bool → Option (List Val × Bool)
  | [], values, [], seen => some (values, seen)
  | [], values, ss, seen => (concatTokens ss).map (fun c => (values ++ [c], seen))
  | .tok v b u a e :: rest, values, ss, seen => gather rest values (ss ++ [⟨v, b, u, a, e⟩]) seen
  | .joined vals _ _ :: rest, values, ss, _ =>
    match ss with
    | [] => gather rest (values ++ vals) [] true
    | _ => match concatTokens ss with
      | some c => gather rest (values ++ [c] ++ vals) [] true
      | none => none

def isBytesConst : Val → Bool
  | .const _ b _ _ _ => b
  | .fmt _ => false

/-- merge adjacent constants (the text grows, the end moves) -/
def consolidate : List Val → List Val → List Val
  | acc, [] => acc
  | acc, v :: vs =>
    match acc.getLast?, v with
    | some (.const s b u a _), .const s2 _ _ _ e2 => consolidate (acc.dropLast ++ [.const (s ++ s2) b u a e2]) vs
    | _, _ => consolidate (acc ++ [v]) vs

def isEmptyStr : Val → Bool
  | .const s b _ _ _ => s.isEmpty && !b
  | .fmt _ => false

def startOf (p : Part) : Option Pos := match p with | .joined _ a _ => some a | _ => none
def stopOf (p : Part) : Option Pos := match p with | .joined _ _ e => some e | _ => none

def valStart : Val → Pos
  | .const _ _ _ a _ => a
  | .fmt _ => ⟨0, 0⟩
def valStop : Val → Pos
  | .const _ _ _ _ e => e
  | .fmt _ => ⟨0, 0⟩

/-- `concatenate_strings(parts)` without the path-literal wrapper -/
def concatStrings (parts : List Part) : Out :=
  match gather parts [] [] false with
  | none => .mixError
  | some (values, seen) =>
    if seen && values.any isBytesConst then .mixError
    else
      match seen, values with
      | false, [.const s b u a e] => .node (.const s b u a e)
      | _, _ =>
        .joinedStr ((consolidate [] values).filter (fun v => !isEmptyStr v))
          ((parts.head?.bind startOf).getD ((values.head?.map valStart).getD ⟨0, 0⟩))
          ((parts.getLast?.bind stopOf).getD ((values.getLast?.map valStop).getD ⟨0, 0⟩))

end XV.Concat
