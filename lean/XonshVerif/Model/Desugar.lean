/-
  Model of the builders that turn xonsh expression constructs into calls on the `__xonsh__` runtime object
  (peg_parser/subheader.py: `load_attribute_chain`, `xonsh_call`, `expand_env_name`, `expand_env_expr`, `expand_help`,
  `expand_search_path`, `handle_proc`, `proc_inject`, `proc_pyexpr`, `macro_call`, the `enter_macro` call of
  `handle_with_macro_stmt`).  Argument nodes handed to a builder are opaque holes.
-/
import XonshVerif.Model.Basic
namespace XV.Desugar
open XV

structure Sp where
  a : Pos
  b : Pos
deriving DecidableEq, Repr, Inhabited

inductive Ctx where | load | store | del
deriving DecidableEq, Repr, Inhabited

inductive X where
  | name (id : String) (sp : Sp)
  | attr (v : X) (a : String) (sp : Sp)
  | const (s : List Nat) (sp : Sp)
  | call (f : X) (args : List X) (sp : Sp)
  | subscript (v : X) (sl : X) (ctx : Ctx) (sp : Sp)
  | starred (v : X) (sp : Sp)
  | tuple (es : List X) (sp : Sp)
  | hole (i : Nat)
deriving Repr, Inhabited

/-- `load_attribute_chain("a.b.c")` -/
def loadChain (parts : List String) (sp : Sp) : X :=
  match parts with
  | [] => .name "" sp
  | p :: ps => ps.foldl (fun acc a => .attr acc a sp) (.name p sp)

def xonshCall (parts : List String) (args : List X) (sp : Sp) : X := .call (loadChain parts sp) args sp

def expandEnvName (s : List Nat) (ctx : Ctx) (sp : Sp) : X :=
  .subscript (loadChain ["__xonsh__", "env"] sp) (.const s sp) ctx sp

def expandEnvExpr (e : X) (ctx : Ctx) (sp : Sp) : X :=
  .subscript (loadChain ["__xonsh__", "env"] sp) (xonshCall ["str"] [e] sp) ctx sp

def handleProc (method : String) (args : List X) (sp : Sp) : X := xonshCall ["__xonsh__", method] args sp
def procInject (args : List X) (sp : Sp) : X := .starred (xonshCall ["__xonsh__", "subproc_captured_inject"] args sp) sp
def procPyexpr (e : X) (sp : Sp) : X := .starred (xonshCall ["__xonsh__", "list_of_strs_or_callables"] [e] sp) sp
def expandSearchPath (s : List Nat) (sp : Sp) : X := xonshCall ["__xonsh__", "pathsearch"] [.const s sp] sp

def macroCall (callee : X) (params : List (List Nat × Sp)) (sp : Sp) : X :=
  xonshCall ["__xonsh__", "call_macro"]
    [callee, .tuple (params.map (fun p => .const p.1 p.2)) sp, xonshCall ["globals"] [] sp, xonshCall ["locals"] [] sp] sp

def enterMacro (ctxExpr : X) (body : List Nat) (bodySp : Sp) (sp : Sp) : X :=
  xonshCall ["__xonsh__", "enter_macro"] [ctxExpr, .const body bodySp, xonshCall ["globals"] [] sp, xonshCall ["locals"] [] sp] sp

/-- one step of a help chain: the atom (an opaque node with its span and, when it is a Name, its id), whether the mark is
    `??`, where the mark ends -/
structure HelpAtom where
  node : X
  sp : Sp
  nameId : Option String
  super : Bool
  markEnd : Pos
deriving Repr, Inhabited

/-- `expand_help(atoms)`; `none` = the "only a name can follow '.'" error (or no atom at all) -/
def expandHelp : List HelpAtom → Option X
  | [] => none
  | a0 :: rest =>
    let fn (a : HelpAtom) := if a.super then "superhelp" else "help"
    let start := a0.sp.a
    let first : X := xonshCall ["__xonsh__", fn a0] [a0.node] ⟨start, a0.markEnd⟩
    rest.foldl (fun acc a =>
      match acc, a.nameId with
      | some node, some id => some (xonshCall ["__xonsh__", fn a] [.attr node id ⟨start, a.sp.b⟩] ⟨start, a.markEnd⟩)
      | _, _ => none) (some first)

end XV.Desugar
