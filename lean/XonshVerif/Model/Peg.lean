/-
  Recogniser-level model of the generated parser (peg_parser/parser.py) and of the runtime
  combinators of peg_parser/subheader.py: mark/reset, `memoize`, `memoize_left_rec`, `repeated`,
  `gathered`/`sep_repeated`, `seq_alts`, look-aheads, cut, forced tokens, `call_invalid_rules`,
  `*_without_invalid` rules.

  What is abstracted: action VALUES.  An alternative's action is represented by its behaviour with
  respect to Python truthiness and exceptions (`ActKind`), which is all the control flow of the
  parser looks at.
-/
import XonshVerif.Model.Basic
namespace XV.Peg

/-- A token as the recogniser sees it: type and interned string (`strId` indexes the program's
    string table; strings that occur nowhere in the parser get an id outside the table). -/
structure RTok where
  ty    : TT
  strId : Nat
  isKw  : Bool      -- string ∈ KEYWORDS
  isSoft : Bool     -- string ∈ SOFT_KEYWORDS
deriving DecidableEq, Repr, Inhabited

/-- Things that can be called without further structure. -/
inductive Prim where
  | rule (id : Nat)
  | expect (s : Nat)
  | token (t : TT)
  | name | keyword | softKeyword | anyToken
deriving DecidableEq, Repr, Inhabited

inductive Item where
  | call (p : Prim)
  | repeated (p : Prim)
  | gathered (elem sep : Prim)
  | seqAlts (ps : List Prim)
  | posLook (p : Prim)
  | negLook (p : Prim)
  | forced (p : Prim) (what : Nat)
  | setCut
  | guardInvalid
deriving DecidableEq, Repr, Inhabited

/-- Behaviour of an action value: what `if res:` / `return` do with it. -/
inductive ActKind where
  | truthy          -- a node, a non-empty list/tuple/string, a bound non-optional variable
  | none            -- `return None` (or another falsy constant)
  | raises          -- an unconditional `self.raise_*` call
  | mayRaise        -- truthy unless a helper raises (check_version, literal_eval, ensure_*)
  | viaItem (i : Nat)   -- `return v` where `v` was bound by the optional i-th conjunct: truthy iff that call succeeded
  | unknown         -- conditional on values: the recogniser cannot decide
  | gate (minor : Nat)  -- `self.check_version((3, minor), ..)`: truthy if py_version >= (3, minor), else raises; resolved by `gateProg`
deriving DecidableEq, Repr, Inhabited

structure AltItem where
  item : Item
  opt  : Bool      -- wrapped in a 1-tuple: always truthy
deriving DecidableEq, Repr, Inhabited

structure Alt where
  items : List AltItem
  act   : ActKind
  cut   : Bool
deriving DecidableEq, Repr, Inhabited

inductive Deco where | none | memo | leftrec | logger
deriving DecidableEq, Repr, Inhabited

inductive Body where
  | alts (as : List Alt) (withoutInvalid : Bool) (usesLoc : Bool)
  | seqAlts (ps : List Prim)
  | unmodelled
deriving DecidableEq, Repr, Inhabited

structure Rule where
  deco : Deco
  body : Body
deriving DecidableEq, Repr, Inhabited

abbrev Prog := Array Rule

/-- Result of running something at a position. `fail` carries the position at return, because a
    method can `return None` without resetting (the caller resets). -/
inductive Res where
  | ok (stop : Nat)
  | fail (stop : Nat)
  | raised                  -- a SyntaxError was raised by an action / forced token
  | undecided               -- an `unknown`/`mayRaise` action was reached (recogniser cannot decide)
  | tokErr                  -- token stream exhausted
  | outOfFuel
deriving DecidableEq, Repr, Inhabited

def Res.isOk : Res → Bool | .ok _ => true | _ => false
/-- Exceptional results propagate immediately. -/
def Res.isAbort : Res → Bool | .raised | .undecided | .tokErr | .outOfFuel => true | _ => false

structure St where
  pos     : Nat
  invalid : Bool                                  -- self.call_invalid_rules
  verbose : Bool                                  -- self._verbose (tracing; must not change any result: C15)
  cache   : Array (List (Nat × Res))              -- per position: (rule id ↦ result stored)
  fetched : Nat                                   -- number of tokens fetched so far (for diagnose())
  fired   : List (Nat × Nat)                      -- (rule, alternative index) whose action ran, most recent first
  assumed : Bool                                  -- a `mayRaise` action was taken to be truthy
  resets  : Nat                                   -- cost counters (C18)
  peeks   : Nat
  nexts   : Nat
deriving Repr, Inhabited

/-- `Tokenizer.reset(index)`; `resets` counts the calls (also the ones that do not move). -/
def St.reset (s : St) (p : Nat) : St := { s with pos := p, resets := s.resets + 1 }

def cacheGet (c : Array (List (Nat × Res))) (pos rule : Nat) : Option Res :=
  match c[pos]? with
  | some l => (l.find? (·.1 = rule)).map (·.2)
  | none => none

def cachePut (c : Array (List (Nat × Res))) (pos rule : Nat) (r : Res) : Array (List (Nat × Res)) :=
  if h : pos < c.size then c.set pos ((rule, r) :: (c[pos]).filter (·.1 ≠ rule)) else c

section
variable (prog : Prog) (w : Array RTok)

/-- `peek()`: the token at the current position (fetching it if need be). -/
def peekTok (s : St) : Option RTok × St :=
  match w[s.pos]? with
  | some t => (some t, { s with fetched := max s.fetched (s.pos + 1), peeks := s.peeks + 1 })
  | none => (none, s)

/-- A leaf test: on success `getnext()`. -/
def leaf (test : RTok → Bool) (s : St) : Res × St :=
  match peekTok w s with
  | (some t, s1) =>
      if test t then (.ok (s1.pos + 1), { s1 with pos := s1.pos + 1, nexts := s1.nexts + 1, peeks := s1.peeks + 1,
                                                   fetched := max s1.fetched (s1.pos + 1) })
      else (.fail s1.pos, s1)
  | (none, s1) => (.tokErr, s1)

/-- entering a standard-shape method: `*_without_invalid` rules clear the flag; rules that use LOCATIONS
    peek at the first token (`_lnum, _col = self._tokenizer.peek().start`) -/
def bodyEntry (wo usesLoc : Bool) (s : St) : Option St :=
  let sA := if wo then { s with invalid := false } else s
  if usesLoc then
    match peekTok w sA with
    | (some _, sB) => some sB
    | (none, _) => none
  else some sA

/-- leaving it: the flag is restored before every `return` (not when an exception propagates) -/
def bodyExit (wo prev : Bool) (res : Res) (s1 : St) : St :=
  if res.isAbort || !wo then s1 else { s1 with invalid := prev }

mutual

/-- Call a primitive. -/
def execPrim : Nat → Prim → St → Res × St
  | 0, _, s => (.outOfFuel, s)
  | fuel + 1, p, s =>
    match p with
    | .rule id => execRule fuel id s
    | .expect sid => leaf w (fun t => t.strId = sid) s
    | .token ty => leaf w (fun t => t.ty = ty) s
    | .name => leaf w (fun t => t.ty = .NAME && !t.isKw) s
    | .keyword => leaf w (fun t => t.ty = .NAME && t.isKw) s
    | .softKeyword => leaf w (fun t => t.ty = .NAME && t.isSoft) s
    | .anyToken =>
      -- `return self._tokenizer.getnext()`: no separate peek
      match w[s.pos]? with
      | some _ => (.ok (s.pos + 1), { s with pos := s.pos + 1, nexts := s.nexts + 1, peeks := s.peeks + 1,
                                              fetched := max s.fetched (s.pos + 1) })
      | none => (.tokErr, s)

/-- A decorated rule method. -/
def execRule : Nat → Nat → St → Res × St
  | 0, _, s => (.outOfFuel, s)
  | fuel + 1, id, s =>
    match prog[id]? with
    | none => (.undecided, s)
    | some r =>
      match r.deco with
      | .none | .logger => execBody fuel id r.body s
      | .memo =>
        let mark := s.pos
        match cacheGet s.cache mark id with
        | some (.ok e) => (.ok e, s.reset e)
        | some (.fail e) => (.fail e, s.reset e)
        | some other => (other, s)
        | none =>
          let (res, s1) := execBody fuel id r.body s
          if res.isAbort then (res, s1)
          else
            -- endmark = self._mark() after the call, stored even for a failure
            let stored := match res with | .ok _ => Res.ok s1.pos | _ => Res.fail s1.pos
            (res, { s1 with cache := cachePut s1.cache mark id stored })
      | .leftrec =>
        let mark := s.pos
        match cacheGet s.cache mark id with
        | some (.ok e) => (.ok e, s.reset e)
        | some (.fail e) =>
          -- fast path: `self._reset(endmark)` whatever the tree (endmark = mark for a failure entry);
          -- slow (verbose) path: `if tree: self._reset(endmark)` - no reset for a failure
          if s.verbose then (.fail s.pos, s) else (.fail e, s.reset e)
        | some other => (other, s)
        | none =>
          let s0 := { s with cache := cachePut s.cache mark id (.fail mark) }
          grow fuel id r.body mark none mark s0

/-- The seed-growing loop of `memoize_left_rec`: `last` is `lastresult` (none = None), `lastmark`. -/
def grow : Nat → Nat → Body → Nat → Option Nat → Nat → St → Res × St
  | 0, _, _, _, _, _, s => (.outOfFuel, s)
  | fuel + 1, id, body, mark, last, lastmark, s =>
    let s1 := s.reset mark
    let (res, s2) := execBody fuel id body s1
    if res.isAbort then (res, s2)
    else
      let endmark := s2.pos
      match res with
      | .ok _ =>
        if endmark ≤ lastmark then finish id mark last lastmark s2
        else
          let s3 := { s2 with cache := cachePut s2.cache mark id (.ok endmark) }
          grow fuel id body mark (some endmark) endmark s3
      | _ => finish id mark last lastmark s2
where
  /-- after the loop: `self._reset(lastmark)`, final cache entry, result -/
  finish (id mark : Nat) (last : Option Nat) (lastmark : Nat) (s : St) : Res × St :=
    let s1 := s.reset lastmark
    match last with
    | some e =>
      (.ok e, { s1 with cache := cachePut s1.cache mark id (.ok s1.pos) })
    | none =>
      let s2 := s1.reset mark
      (.fail mark, { s2 with cache := cachePut s2.cache mark id (.fail mark) })

/-- A method body. -/
def execBody : Nat → Nat → Body → St → Res × St
  | 0, _, _, s => (.outOfFuel, s)
  | fuel + 1, rid, b, s =>
    match b with
    | .unmodelled => (.undecided, s)
    | .seqAlts ps => execSeqAlts fuel ps s.pos s
    | .alts as wo usesLoc =>
      match bodyEntry w wo usesLoc s with
      | none => (.tokErr, s)
      | some sB =>
        ((execAlts fuel rid 0 as sB.pos sB).1, bodyExit wo s.invalid (execAlts fuel rid 0 as sB.pos sB).1 (execAlts fuel rid 0 as sB.pos sB).2)

/-- `seq_alts(*alts)`. -/
def execSeqAlts : Nat → List Prim → Nat → St → Res × St
  | 0, _, _, s => (.outOfFuel, s)
  | _ + 1, [], mark, s => (.fail mark, s)       -- (position is `mark` after the last reset)
  | fuel + 1, p :: ps, mark, s =>
    let (res, s1) := execPrim fuel p s
    if res.isAbort then (res, s1)
    else match res with
      | .ok e => (.ok e, s1)
      | _ => execSeqAlts fuel ps mark (s1.reset mark)

/-- The alternatives of a standard-shape method, in order. -/
def execAlts : Nat → Nat → Nat → List Alt → Nat → St → Res × St
  | 0, _, _, _, _, s => (.outOfFuel, s)
  | _ + 1, _, _, [], mark, s => (.fail mark, s)
  | fuel + 1, rid, idx, a :: as, mark, s =>
    let (ok, cut, res, s0, oks) := execItems fuel a.items false [] s
    if res.isAbort then (res, s0)
    else if ok then
      -- all conjuncts truthy: the action runs, `return <action>`
      let s1 := { s0 with fired := (rid, idx) :: s0.fired }
      match a.act with
      | .truthy => (.ok s1.pos, s1)
      | .none => (.fail s1.pos, s1)
      | .raises => (.raised, s1)
      | .mayRaise => (.ok s1.pos, { s1 with assumed := true })
      | .viaItem i => if (oks.reverse[i]?).getD false then (.ok s1.pos, s1) else (.fail s1.pos, s1)
      | .unknown => (.undecided, s1)
      | .gate _ => (.ok s1.pos, { s1 with assumed := true })   -- unresolved gate: as `mayRaise`
    else
      let s2 := s0.reset mark
      if cut then (.fail mark, s2) else execAlts fuel rid (idx + 1) as mark s2

/-- The conjuncts of an `if`: returns (all truthy?, cut flag, abort result or dummy, state, and for every
    conjunct evaluated so far whether its CALL succeeded, most recent first). -/
def execItems : Nat → List AltItem → Bool → List Bool → St → Bool × Bool × Res × St × List Bool
  | 0, _, cut, oks, s => (false, cut, .outOfFuel, s, oks)
  | _ + 1, [], cut, oks, s => (true, cut, .ok s.pos, s, oks)
  | fuel + 1, it :: its, cut, oks, s =>
    match it.item with
    | .setCut => execItems fuel its true (true :: oks) s
    | .guardInvalid => if s.invalid then execItems fuel its cut (true :: oks) s else (false, cut, .fail s.pos, s, oks)
    | item =>
      let (res, s1) := execItem fuel item s
      if res.isAbort then (false, cut, res, s1, oks)
      else if res.isOk || it.opt then execItems fuel its cut (res.isOk :: oks) s1
      else (false, cut, res, s1, oks)

/-- One call expression of an and-chain (truthiness = `isOk`). -/
def execItem : Nat → Item → St → Res × St
  | 0, _, s => (.outOfFuel, s)
  | fuel + 1, it, s =>
    match it with
    | .call p => execPrim fuel p s
    | .seqAlts ps => execSeqAlts fuel ps s.pos s
    | .repeated p =>
      let (n, res, s1) := execRepeat fuel p s.pos 0 s
      if res.isAbort then (res, s1) else if n = 0 then (.fail s1.pos, s1) else (.ok s1.pos, s1)
    | .gathered elem sep =>
      let mark := s.pos
      -- elem := self.seq_alts(func)
      let (r1, s1) := execSeqAlts fuel [elem] mark s
      if r1.isAbort then (r1, s1)
      else match r1 with
        | .ok _ =>
          let (_, res, s2) := execSepRepeat fuel elem sep s1.pos 0 s1
          if res.isAbort then (res, s2) else (.ok s2.pos, s2)
        | _ => (.fail mark, s1.reset mark)
    | .posLook p =>
      let mark := s.pos
      let (res, s1) := execPrim fuel p s
      if res.isAbort then (res, s1)
      else let s2 := s1.reset mark
        if res.isOk then (.ok mark, s2) else (.fail mark, s2)
    | .negLook p =>
      let mark := s.pos
      let (res, s1) := execPrim fuel p s
      if res.isAbort then (res, s1)
      else let s2 := s1.reset mark
        if res.isOk then (.fail mark, s2) else (.ok mark, s2)
    | .forced p _ =>
      let (res, s1) := execPrim fuel p s
      if res.isAbort then (res, s1)
      else if res.isOk then (res, s1) else (.raised, s1)
    | .setCut => (.ok s.pos, s)
    | .guardInvalid => if s.invalid then (.ok s.pos, s) else (.fail s.pos, s)

/-- `repeated(func)`: `mark` is the position after the last successful child. -/
def execRepeat : Nat → Prim → Nat → Nat → St → Nat × Res × St
  | 0, _, _, n, s => (n, .outOfFuel, s)
  | fuel + 1, p, mark, n, s =>
    let (res, s1) := execPrim fuel p s
    if res.isAbort then (n, res, s1)
    else match res with
      | .ok _ => execRepeat fuel p s1.pos (n + 1) s1
      | _ => (n, .ok mark, s1.reset mark)

/-- `repeated(self.sep_repeated, func, sep, *sep_args)`. -/
def execSepRepeat : Nat → Prim → Prim → Nat → Nat → St → Nat × Res × St
  | 0, _, _, _, n, s => (n, .outOfFuel, s)
  | fuel + 1, elem, sep, mark, n, s =>
    let (rs, s1) := execPrim fuel sep s
    if rs.isAbort then (n, rs, s1)
    else match rs with
      | .ok _ =>
        let (re, s2) := execSeqAlts fuel [elem] s1.pos s1
        if re.isAbort then (n, re, s2)
        else match re with
          | .ok _ => execSepRepeat fuel elem sep s2.pos (n + 1) s2
          | _ => (n, .ok mark, s2.reset mark)
      | _ => (n, .ok mark, s1.reset mark)

end

/-- Resolve the version gates for an effective `py_version` (3, v): a gate with threshold `m` lets its alternative
    succeed when `m <= v` and raises the "only supported in Python (3, m) and above" SyntaxError otherwise. -/
def gateAlt (v : Nat) (a : Alt) : Alt :=
  match a.act with
  | .gate m => { a with act := if m ≤ v then .truthy else .raises }
  | _ => a
def gateBody (v : Nat) : Body → Body
  | .alts as wo ul => .alts (as.map (gateAlt v)) wo ul
  | b => b
def gateRule (v : Nat) (r : Rule) : Rule := { r with body := gateBody v r.body }
def gateProg (v : Nat) (prog : Prog) : Prog := prog.map (gateRule v)

/-- Initial state for a token list. -/
def St.init (n : Nat) (invalid : Bool) (verbose : Bool := false) : St :=
  { pos := 0, invalid := invalid, verbose := verbose, cache := Array.replicate (n + 1) [], fetched := 0, fired := [], assumed := false, resets := 0, peeks := 0, nexts := 0 }

/-- Outcome of `Parser.parse(rule)` at the recogniser level. -/
inductive Outcome where
  | tree                         -- first pass returned a truthy value
  | invalidSyntax (farthest : Nat)   -- generic error at the last token fetched in the FIRST pass
  | raised                       -- some pass raised a specialised SyntaxError
  | undecided
  | tokErr
  | outOfFuel
deriving DecidableEq, Repr, Inhabited

/-- `Parser.parse`: first pass; on failure clear the cache, `reset(0)`, set the flag, run again, and
    ALWAYS end in a raise: acceptance is decided by the first pass alone. -/
def parse (fuel : Nat) (start : Nat) (verbose : Bool := false) : Outcome × St × Option St × Res :=
  let s0 := St.init w.size false verbose
  let (r1, s1) := execRule prog w fuel start s0
  match r1 with
  | .ok _ => (.tree, s1, none, r1)
  | .raised => (.raised, s1, none, r1)
  | .undecided => (.undecided, s1, none, r1)
  | .tokErr => (.tokErr, s1, none, r1)
  | .outOfFuel => (.outOfFuel, s1, none, r1)
  | .fail _ =>
    let farthest := s1.fetched
    let s2 : St := { (s1.reset 0) with invalid := true, cache := Array.replicate (w.size + 1) [] }
    let (r2, s3) := execRule prog w fuel start s2
    match r2 with
    | .raised => (.raised, s1, some s3, r1)
    | .undecided => (.undecided, s1, some s3, r1)
    | .tokErr => (.tokErr, s1, some s3, r1)
    | .outOfFuel => (.outOfFuel, s1, some s3, r1)
    | _ => (.invalidSyntax farthest, s1, some s3, r1)

end

end XV.Peg
