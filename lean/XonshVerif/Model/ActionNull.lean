/-
  Nullability of the expressions that actions pass to AST constructors (C04): can the value be None?
  A required (`1`) or list (`*`) field of the ASDL must never receive such a value.
-/
namespace XV.Act

inductive Bind where
  | one        -- bound by a non-optional conjunct: truthy, hence not None
  | opt        -- bound by an optional conjunct (1-tuple): None when the item did not match
  | many       -- `repeated(...)`: always a list
  | optMany    -- optional `gathered(...)`: None or a list
deriving DecidableEq, Repr, Inhabited

inductive AE where
  | var (name : String)
  | none
  | nonNull                     -- literals, constructor/helper calls, comprehensions, attribute/subscript, arithmetic
  | orE (a b : AE)              -- `a or b`
  | andE (a b : AE)             -- `a and b`
  | ifE (a b : AE)              -- `a if c else b`
deriving DecidableEq, Repr, Inhabited

inductive FieldKind where | one | opt | star | unknown
deriving DecidableEq, Repr, Inhabited

structure FieldUse where
  ctor  : String
  field : String
  kind  : FieldKind
  value : AE
deriving Repr, Inhabited

structure AltFields where
  rule   : String
  alt    : Nat
  binds  : List (String × Bind)
  fields : List FieldUse
deriving Repr, Inhabited

def bindOf (env : List (String × Bind)) (x : String) : Option Bind := (env.find? (·.1 = x)).map (·.2)

/-- may the expression evaluate to None? (names not bound by the alternative - loop variables, `self` - are not None) -/
def nullable (env : List (String × Bind)) : AE → Bool
  | .var x => (match bindOf env x with | some .opt | some .optMany => true | _ => false)
  | .none => true
  | .nonNull => false
  | .orE _ b => nullable env b                 -- `a or b` is `b` when `a` is falsy (None included)
  | .andE a b => nullable env a || nullable env b
  | .ifE a b => nullable env a || nullable env b

def fieldOK (env : List (String × Bind)) (f : FieldUse) : Bool :=
  match f.kind with
  | .one | .star => !nullable env f.value
  | .opt | .unknown => true

def altOK (a : AltFields) : Bool := a.fields.all (fieldOK a.binds)

/-- the offending (rule, alternative, constructor, field) list -/
def offenders (as : List AltFields) : List (String × Nat × String × String) :=
  as.flatMap (fun a => (a.fields.filter (fun f => !fieldOK a.binds f)).map (fun f => (a.rule, a.alt, f.ctor, f.field)))

end XV.Act
