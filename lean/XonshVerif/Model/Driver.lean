/-
  Request dispatcher of the correspondence driver: one request line in, one answer line out.
-/
import XonshVerif.Model.Wire
import XonshVerif.Model.ProcArgs
import XonshVerif.Model.DriverPeg
import XonshVerif.Model.DriverTok
import XonshVerif.Model.DriverMisc
namespace XV.Driver
open XV XV.Wire

/-- pieces: kind str/id l c l c  (6 fields each) -/
def readPieces : List String → List Piece
  | k :: v :: l0 :: c0 :: l1 :: c1 :: rest =>
      let a : Pos := ⟨nat l0, nat c0⟩
      let b : Pos := ⟨nat l1, nat c1⟩
      let p : Piece := match k with
        | "T" => .tok (decStr v) a b
        | "C" => .const (decStr v) a b
        | "S" => .starred (nat v) a b
        | _   => .node (nat v) a b
      p :: readPieces rest
  | _ => []

partial def encArg : Arg → String
  | .const s a b   => s!"C({encStr s};{encPos a};{encPos b})"
  | .starred i a b => s!"S({i};{encPos a};{encPos b})"
  | .node i a b    => s!"N({i};{encPos a};{encPos b})"
  | .tuple es a b  => "T([" ++ " ".intercalate (es.map encArg) ++ s!"];{encPos a};{encPos b})"
  | .binop l r a b => s!"B({encArg l} + {encArg r};{encPos a};{encPos b})"

def handle (line : String) : String :=
  match fields line with
  | "procargs" :: rest => " ".intercalate ((procArgs (readPieces rest)).map encArg)
  | "parse" :: rest => handleParse rest
  | "parsev" :: rest => handleParse rest true
  | "parseg" :: rest => handleParseGate rest
  | "parsegv" :: rest => handleParseGate rest true
  | "parsep" :: rest => handleParseProg rest
  | "progfacts" :: rest => handleProgFacts rest
  | "tok" :: rest => handleTok rest
  | "macro" :: rest => handleMacro rest
  | "withmacro" :: rest => handleWithMacro rest
  | "span" :: rest => handleSpan rest
  | "concat" :: rest => handleConcat rest
  | "procmacro" :: rest => handleProcMacro rest
  | "desugar" :: rest => handleDesugar rest
  | "makeargs" :: rest => handleMakeArgs rest
  | "builderr" :: rest => handleBuildErr rest
  | "getlines" :: rest => handleGetLines rest
  | "pipeline" :: rest => handlePipeline rest
  | "ping" :: _ => "pong"
  | _ => "bad-request"

end XV.Driver
