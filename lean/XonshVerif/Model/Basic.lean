/-
  Basic vocabulary shared by every layer of the model.  No imports (so that the same
  definitions are kernel-checked and compiled into the native driver).
-/
namespace XV

/-- A source position: 1-based line, 0-based column (in characters), as in `tokenize.py`. -/
structure Pos where
  line : Nat
  col  : Nat
deriving DecidableEq, Repr, Inhabited

instance : LT Pos := ⟨fun a b => a.line < b.line ∨ (a.line = b.line ∧ a.col < b.col)⟩
instance : LE Pos := ⟨fun a b => a.line < b.line ∨ (a.line = b.line ∧ a.col ≤ b.col)⟩
instance (a b : Pos) : Decidable (a < b) := by unfold LT.lt instLTPos; exact inferInstance
instance (a b : Pos) : Decidable (a ≤ b) := by unfold LE.le instLEPos; exact inferInstance

/-- Token types of `peg_parser/tokenize.py:Token` (only the ones the model distinguishes). -/
inductive TT where
  | ENDMARKER | NAME | NUMBER | STRING | NEWLINE | INDENT | DEDENT | OP
  | FSTRING_START | FSTRING_MIDDLE | FSTRING_END | ERRORTOKEN | COMMENT | NL
  | SEARCH_PATH | MACRO_PARAM | WS | OTHER
deriving DecidableEq, Repr, Inhabited

def TT.ofString : String → TT
  | "ENDMARKER" => .ENDMARKER | "NAME" => .NAME | "NUMBER" => .NUMBER | "STRING" => .STRING
  | "NEWLINE" => .NEWLINE | "INDENT" => .INDENT | "DEDENT" => .DEDENT | "OP" => .OP
  | "FSTRING_START" => .FSTRING_START | "FSTRING_MIDDLE" => .FSTRING_MIDDLE
  | "FSTRING_END" => .FSTRING_END | "ERRORTOKEN" => .ERRORTOKEN | "COMMENT" => .COMMENT
  | "NL" => .NL | "SEARCH_PATH" => .SEARCH_PATH | "MACRO_PARAM" => .MACRO_PARAM | "WS" => .WS
  | _ => .OTHER

def TT.toString : TT → String
  | .ENDMARKER => "ENDMARKER" | .NAME => "NAME" | .NUMBER => "NUMBER" | .STRING => "STRING"
  | .NEWLINE => "NEWLINE" | .INDENT => "INDENT" | .DEDENT => "DEDENT" | .OP => "OP"
  | .FSTRING_START => "FSTRING_START" | .FSTRING_MIDDLE => "FSTRING_MIDDLE"
  | .FSTRING_END => "FSTRING_END" | .ERRORTOKEN => "ERRORTOKEN" | .COMMENT => "COMMENT"
  | .NL => "NL" | .SEARCH_PATH => "SEARCH_PATH" | .MACRO_PARAM => "MACRO_PARAM" | .WS => "WS"
  | .OTHER => "OTHER"

/-- A token: type, text (as a list of code points so that any Python `str` is representable),
    start and end. The `line` attribute is kept where a layer needs it. -/
structure Tok where
  ty    : TT
  str   : List Nat
  start : Pos
  stop  : Pos
deriving DecidableEq, Repr, Inhabited

/-- Code points of a Lean string. -/
def cps (s : String) : List Nat := s.toList.map Char.toNat

end XV
