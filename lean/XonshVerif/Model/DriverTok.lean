/-
  Driver requests that run the tokenizer model on the regenerated regexes.
-/
import XonshVerif.Model.Wire
import XonshVerif.Model.Tokenize
import XonshVerif.Generated.Regexes
namespace XV.Driver
open XV XV.Wire XV.Tz

def genPats : Pats :=
  { pseudo := Gen.pseudoToken, endpats := Gen.endpats, startLBrace := Gen.startLBrace, endRBrace := Gen.endRBrace, tabsize := Gen.tabsize }

def encTok (t : Tok5) : String :=
  s!"{t.ty.toString}|{encStr t.str}|{encPos t.start}|{encPos t.stop}|{encStr t.line}"

def encErr : Err → String
  | .tokenError msg p => s!"TokenError|{msg}|{encPos p}"
  | .indentationError l p => s!"IndentationError|{l}|{p}"
  | .reFuel => "fuel-regex"
  | .loopFuel => "fuel-loop"

/-- `tok <wordchars> <spacechars> <src>` -/
def handleTok (fs : List String) : String :=
  match fs with
  | [wc, sc, src] =>
    let E : Rx.Env := { wordChars := decStr wc, spaceChars := decStr sc }
    let r := tokenize E genPats (decStr src)
    let ts := ";".intercalate (r.toks.map encTok)
    match r.err with
    | none => s!"ok {ts}"
    | some e => s!"err {encErr e} {ts}"
  | _ => "bad-request"

end XV.Driver
