/-
  Driver requests that run the regenerated parser IR.
-/
import XonshVerif.Model.Wire
import XonshVerif.Model.Peg
import XonshVerif.Model.WireProg
import XonshVerif.Generated.ParserIR
namespace XV.Driver
open XV XV.Wire XV.Peg

/-- token field: TYPE:strId:kw:soft -/
def readRTok (f : String) : RTok :=
  match f.splitOn ":" with
  | [ty, sid, kw, soft] => { ty := TT.ofString ty, strId := nat sid, isKw := kw = "1", isSoft := soft = "1" }
  | _ => default

def encOutcome : Outcome → String
  | .tree => "tree"
  | .invalidSyntax f => s!"invalid {f}"
  | .raised => "raised"
  | .undecided => "undecided"
  | .tokErr => "tokerr"
  | .outOfFuel => "fuel"

/-- `parse <rule id> <fuel> tok*` (`parsev`: with verbose = true) → outcome, then first-pass counters -/
def handleParse (fs : List String) (verbose : Bool := false) : String :=
  match fs with
  | rid :: fuel :: toks =>
    let w : Array RTok := (toks.map readRTok).toArray
    let (o, s1, _, r1) := parse Gen.prog w (nat fuel) (nat rid) verbose
    let first := match r1 with | .ok _ => "ok" | .fail _ => "fail" | .raised => "raised" | .undecided => "undecided" | .tokErr => "tokerr" | .outOfFuel => "fuel"
    s!"{encOutcome o} first={first} pos={s1.pos} fetched={s1.fetched} peeks={s1.peeks} nexts={s1.nexts} resets={s1.resets} assumed={s1.assumed}"
  | _ => "bad-request"

/-- `parseg <minor> <rule id> <fuel> tok*` (`parsegv`: verbose): the same with the version gates of the IR resolved for the
    effective `py_version` (3, minor) (C15) -/
def handleParseGate (fs : List String) (verbose : Bool := false) : String :=
  match fs with
  | minor :: rid :: fuel :: toks =>
    let w : Array RTok := (toks.map readRTok).toArray
    let (o, s1, _, r1) := parse (gateProg (nat minor) Gen.prog) w (nat fuel) (nat rid) verbose
    let first := match r1 with | .ok _ => "ok" | .fail _ => "fail" | .raised => "raised" | .undecided => "undecided" | .tokErr => "tokerr" | .outOfFuel => "fuel"
    s!"{encOutcome o} first={first} pos={s1.pos} fetched={s1.fetched} peeks={s1.peeks} nexts={s1.nexts} resets={s1.resets} assumed={s1.assumed}"
  | _ => "bad-request"

/-- `parsep <rule id> <fuel> # <program> ## tok*` : run one rule of a program sent over the wire (first pass,
    `call_invalid_rules = False`) → `ok <end>` / `fail` / `raised` / `undecided` / `tokerr` / `fuel` -/
def handleParseProg (fs : List String) : String :=
  match fs with
  | rid :: fuel :: "#" :: rest =>
    match WireProg.readProg rest with
    | some (prog, "##" :: toks) =>
      let w : Array RTok := (toks.map readRTok).toArray
      let (r, s) := execRule prog w (nat fuel) (nat rid) (St.init w.size false)
      match r with
      | .ok _ => s!"ok {s.pos}"
      | .fail _ => "fail"
      | .raised => "raised"
      | .undecided => "undecided"
      | .tokErr => "tokerr"
      | .outOfFuel => "fuel"
    | _ => "bad-program"
  | _ => "bad-request"

/-- the hypothesis `noFalsyB` of `rule_consumes_exactly_its_match`, as the driver evaluates it -/
def progNoFalsy (prog : XV.Peg.Prog) : Bool :=
  prog.all (fun r => match r.body with | .alts as _ _ => as.all (fun a => match a.act with | .none => false | .viaItem _ => false | _ => true) | _ => true)

/-- the hypothesis `plainB` of `recogniser_sound_for_peg_semantics`, as the driver evaluates it -/
def progPlain (prog : XV.Peg.Prog) : Bool :=
  prog.all (fun r => (match r.deco with | .leftrec => false | _ => true) && (match r.body with
    | .alts as _ _ => as.all (fun a => (match a.act with | .none => false | .viaItem _ => false | _ => true) &&
        a.items.all (fun it => match it.item with | .guardInvalid => false | _ => true))
    | _ => true))

/-- the hypothesis `pureB` of `recogniser_complete_for_peg_semantics`, as the driver evaluates it -/
def progPure (prog : XV.Peg.Prog) : Bool :=
  prog.all (fun r => (match r.deco with | .leftrec => false | _ => true) && (match r.body with
    | .alts as _ ul => !ul && as.all (fun a => (match a.act with | .truthy | .mayRaise | .gate _ => true | _ => false) &&
        a.items.all (fun it => match it.item with | .guardInvalid => false | _ => true))
    | _ => true))

/-- `progfacts # prog` : decidable facts about a program sent over the wire (hypotheses of the C17 theorems) -/
def handleProgFacts (fs : List String) : String :=
  match fs with
  | "#" :: rest =>
    match WireProg.readProg rest with
    | some (prog, _) => s!"nofalsy={progNoFalsy prog} plain={progPlain prog} pure={progPure prog}"
    | none => "bad-program"
  | _ => "bad-request"

end XV.Driver
