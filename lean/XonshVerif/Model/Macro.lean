/-
  Model of `Tokenizer.consume_macro_params` (peg_parser/tokenizer.py): raw capture of one call-macro
  argument from the token generator.
-/
import XonshVerif.Model.Basic
namespace XV.Macro
open XV

/-- result of one call of `consume_macro_params` -/
inductive Out where
  | param (str : List Nat) (start stop : Pos)          -- MACRO_PARAM
  | blank (str : List Nat) (start stop : Pos)          -- WS (whitespace-only or empty argument: dropped by is_blank)
  | close (t : Tok)                                    -- the pushed-back `)` is returned (empty parameter list)
  | unmatched (t : Tok)                                -- SyntaxError("Unmatched closing paren ...")
  | eof                                                -- generator exhausted: TokenError
deriving Repr, Inhabited

def isOpener (t : Tok) : Option Nat :=
  if t.ty = .OP then
    match t.str.getLast? with
    | some 40 => some 40 | some 91 => some 91 | some 123 => some 123
    | _ => none
  else none

/-- `self._end_parens.get(tok.string)` for an OP token -/
def closerOf (t : Tok) : Option Nat :=
  if t.ty = .OP then
    (if t.str = [41] then some 40 else if t.str = [93] then some 91 else if t.str = [125] then some 123 else none)
  else none

def isExact (t : Tok) (c : Nat) : Bool := t.ty = .OP && t.str = [c]

def isBlankStr (isSpace : Nat → Bool) (s : List Nat) : Bool := s.all isSpace

/-- The loop.  `stack`: `paren_level` (innermost first); `acc`: tokens consumed so far (reversed).
    Returns the outcome, the tokens consumed into the argument (in order), whether `)` was pushed back
    (then `_call_macro` is cleared) and the rest of the generator. -/
def loop (isSpace : Nat → Bool) : List Tok → List Nat → List Tok → Out × List Tok × Bool × List Tok
  | [], _, acc => (.eof, acc.reverse, false, [])
  | t :: rest, stack, acc =>
    let stack1 := match isOpener t with | some c => c :: stack | none => stack
    match stack1 with
    | top :: below =>
      match closerOf t with
      | some opener =>
        if top = opener then loop isSpace rest below (t :: acc)
        else (.unmatched t, acc.reverse, false, rest)
      | none => loop isSpace rest stack1 (t :: acc)
    | [] =>
      if isExact t 41 then
        -- `)`: pushed back on `_stack`, `_call_macro = False`, break
        (finishOut isSpace acc.reverse (some t) t, acc.reverse, true, rest)
      else if isExact t 44 then
        (finishOut isSpace acc.reverse none t, acc.reverse, false, rest)
      else loop isSpace rest [] (t :: acc)
where
  /-- what is returned after the loop: `consumed` in order, `pushed` = the `)` on `_stack` if any, `last` = delimiter -/
  finishOut (isSpace : Nat → Bool) (consumed : List Tok) (pushed : Option Tok) (last : Tok) : Out :=
    let str := (consumed.map (·.str)).flatten
    match consumed, pushed with
    | [], some p => .close p                                   -- `if (not string) and self._stack: return self._stack.pop()`
    | [], none => .blank [] last.start last.start               -- nothing between two commas
    | first :: _, _ =>
      if str.isEmpty then
        (match pushed with | some p => .close p | none => .blank str first.start ((consumed.getLast?).getD first).stop)
      else if isBlankStr isSpace str then .blank str first.start ((consumed.getLast?).getD first).stop
      else .param str first.start ((consumed.getLast?).getD first).stop

def consumeMacroParam (isSpace : Nat → Bool) (gen : List Tok) : Out × List Tok × Bool × List Tok :=
  loop isSpace gen [] []

end XV.Macro
