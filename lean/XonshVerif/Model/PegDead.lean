/-
  The dead-alternative checker for C01/C02/C05: which parts of the recogniser program can never
  succeed on a token list of the Python lexicon.
-/
import XonshVerif.Model.Peg
namespace XV.Peg

/-- What the checker is told about the lexicon: ids of strings that only xonsh produces
    (`$ ? ?? ! || && @( !( ![ $( $[ ${ @$( >&`) and token types that only xonsh produces. -/
structure Lexicon where
  xonshStrs  : List Nat
  xonshTypes : List TT
deriving Repr, Inhabited

/-- A token list of the Python lexicon. -/
def PyLex (L : Lexicon) (w : Array RTok) : Prop :=
  ∀ t ∈ w.toList, t.strId ∉ L.xonshStrs ∧ t.ty ∉ L.xonshTypes

/-- witness: ids of rules claimed dead -/
abbrev DeadSet := List Nat

def deadPrim (L : Lexicon) (W : DeadSet) : Prim → Bool
  | .rule id => W.contains id
  | .expect s => L.xonshStrs.contains s
  | .token t => L.xonshTypes.contains t
  | .name | .keyword | .softKeyword | .anyToken => false

/-- an item that cannot be truthy on Python-lexicon input -/
def deadItem (L : Lexicon) (W : DeadSet) : Item → Bool
  | .call p => deadPrim L W p
  | .repeated p => deadPrim L W p            -- one-or-more of something dead
  | .gathered elem _ => deadPrim L W elem
  | .seqAlts ps => ps.all (deadPrim L W)
  | .posLook p => deadPrim L W p
  | .negLook _ => false
  | .forced _ _ => false
  | .setCut => false
  | .guardInvalid => false

/-- an alternative is dead when one of its non-optional conjuncts is dead -/
def deadAlt (L : Lexicon) (W : DeadSet) (a : Alt) : Bool :=
  a.items.any (fun it => !it.opt && deadItem L W it.item)

def deadBody (L : Lexicon) (W : DeadSet) : Body → Bool
  | .alts as _ _ => as.all (deadAlt L W)
  | .seqAlts ps => ps.all (deadPrim L W)
  | .unmodelled => false

/-- The certificate: every rule in the witness is undecorated (no cache in play) and all its alternatives are dead. -/
def deadCert (L : Lexicon) (prog : Prog) (W : DeadSet) : Bool :=
  W.all (fun id =>
    match prog[id]? with
    | some r => (r.deco == .none || r.deco == .logger) && deadBody L W r.body
    | none => false)

/-- The dead alternatives of LIVE rules (the ones the parser still tries): (rule, index) -/
def deadAltsOf (L : Lexicon) (W : DeadSet) (prog : Prog) : List (Nat × Nat) :=
  (List.range prog.size).flatMap (fun id =>
    match prog[id]? with
    | some r =>
      match r.body with
      | .alts as _ _ => (List.range as.length).filterMap (fun i => match as[i]? with
          | some a => if deadAlt L W a then some (id, i) else none
          | none => none)
      | _ => []
    | none => [])

end XV.Peg
