/-
  A recogniser program sent over the wire (C17: the IR of a parser generated from a random grammar in
  this run is interpreted by the same `Peg` model the theorems are about).  Prefix notation, one
  blank-separated token per symbol:
    prim   r<id> | e<strId> | t<TYPE> | N | K | Y | Z
    item   c prim | R prim | G prim prim | S <n> prim* | P prim | Q prim | F prim <what> | X | V
    entry  o item | m item                       (optional / mandatory conjunct)
    act    at | an | ar | am | av<i> | au
    alt    L <n> entry* act <0|1>
    body   A <n> alt* <0|1> <0|1> | B <n> prim* | U
    rule   D <n|m|l|g> body
    prog   <n> rule*
-/
import XonshVerif.Model.Wire
import XonshVerif.Model.Peg
namespace XV.WireProg
open XV XV.Wire XV.Peg

abbrev P (α : Type) := List String → Option (α × List String)

def readPrim : P Prim
  | t :: rest =>
    if t = "N" then some (.name, rest) else if t = "K" then some (.keyword, rest)
    else if t = "Y" then some (.softKeyword, rest) else if t = "Z" then some (.anyToken, rest)
    else match t.toList with
      | 'r' :: ds => some (.rule (String.ofList ds).toNat!, rest)
      | 'e' :: ds => some (.expect (String.ofList ds).toNat!, rest)
      | 't' :: ds => some (.token (TT.ofString (String.ofList ds)), rest)
      | _ => none
  | [] => none

def readMany {α : Type} (one : P α) : Nat → P (List α)
  | 0, ts => some ([], ts)
  | n + 1, ts =>
    match one ts with
    | some (x, rest) => (readMany one n rest).map (fun (xs, r) => (x :: xs, r))
    | none => none

def readItem : P Item
  | "c" :: ts => (readPrim ts).map (fun (p, r) => (.call p, r))
  | "R" :: ts => (readPrim ts).map (fun (p, r) => (.repeated p, r))
  | "G" :: ts => match readPrim ts with
      | some (a, r) => (readPrim r).map (fun (b, r2) => (.gathered a b, r2))
      | none => none
  | "S" :: n :: ts => (readMany readPrim (nat n) ts).map (fun (ps, r) => (.seqAlts ps, r))
  | "P" :: ts => (readPrim ts).map (fun (p, r) => (.posLook p, r))
  | "Q" :: ts => (readPrim ts).map (fun (p, r) => (.negLook p, r))
  | "F" :: ts => match readPrim ts with
      | some (p, w :: r) => some (.forced p (nat w), r)
      | _ => none
  | "X" :: ts => some (.setCut, ts)
  | "V" :: ts => some (.guardInvalid, ts)
  | _ => none

def readEntry : P AltItem
  | "o" :: ts => (readItem ts).map (fun (i, r) => ({ item := i, opt := true }, r))
  | "m" :: ts => (readItem ts).map (fun (i, r) => ({ item := i, opt := false }, r))
  | _ => none

def readAct : P ActKind
  | t :: ts =>
    if t = "at" then some (.truthy, ts) else if t = "an" then some (.none, ts) else if t = "ar" then some (.raises, ts)
    else if t = "am" then some (.mayRaise, ts) else if t = "au" then some (.unknown, ts)
    else match t.toList with
      | 'a' :: 'v' :: ds => some (.viaItem (String.ofList ds).toNat!, ts)
      | 'a' :: 'g' :: ds => some (.gate (String.ofList ds).toNat!, ts)
      | _ => none
  | [] => none

def readAlt : P Alt
  | "L" :: n :: ts =>
    match readMany readEntry (nat n) ts with
    | some (its, r) =>
      match readAct r with
      | some (a, c :: r2) => some ({ items := its, act := a, cut := c = "1" }, r2)
      | _ => none
    | none => none
  | _ => none

def readBody : P Body
  | "A" :: n :: ts =>
    match readMany readAlt (nat n) ts with
    | some (as, wo :: ul :: r) => some (.alts as (wo = "1") (ul = "1"), r)
    | _ => none
  | "B" :: n :: ts => (readMany readPrim (nat n) ts).map (fun (ps, r) => (.seqAlts ps, r))
  | "U" :: ts => some (.unmodelled, ts)
  | _ => none

def readRule : P Rule
  | "D" :: d :: ts =>
    let deco : Deco := if d = "m" then .memo else if d = "l" then .leftrec else if d = "g" then .logger else .none
    (readBody ts).map (fun (b, r) => ({ deco := deco, body := b }, r))
  | _ => none

def readProg : P Prog
  | n :: ts => (readMany readRule (nat n) ts).map (fun (rs, r) => (rs.toArray, r))
  | [] => none

end XV.WireProg
