/-
  C12 — the two ways `Tokenizer.get_lines` finds the text of source lines for an error message:
  string mode (`parse_string`: a table of all lines, filled before parsing) and file mode
  (`parse_file`: the file is read again, line by line, until all requested lines were seen).
  Lines are lists of code points; the file is the list of its lines as text-mode iteration yields them.
-/
namespace XV.Lines

/-- string mode: `lines = dict(enumerate(readlines(), 1))`, then `[lines.get(n, "") for n in line_numbers]` -/
def getLinesString (ls : List (List Nat)) (nums : List Nat) : List (List Nat) :=
  nums.map (fun n => if n = 0 then [] else (ls[n - 1]?).getD [])

/-- file mode, the scan:
    `for line in f: count += 1; if count in line_numbers: seen += 1; lines[count] = line; if seen == n: break` -/
def scanFile (nums : List Nat) (n : Nat) : List (List Nat) → Nat → Nat → List (Nat × List Nat) → List (Nat × List Nat)
  | [], _, _, acc => acc
  | l :: rest, count, seen, acc =>
    if nums.contains (count + 1) then
      if seen + 1 = n then acc ++ [(count + 1, l)]
      else scanFile nums n rest (count + 1) (seen + 1) (acc ++ [(count + 1, l)])
    else scanFile nums n rest (count + 1) seen acc

def lookup (t : List (Nat × List Nat)) (k : Nat) : List Nat := ((t.find? (·.1 = k)).map (·.2)).getD []

/-- file mode: `[lines.get(n, "") for n in line_numbers]` over the table the scan built -/
def getLinesFile (ls : List (List Nat)) (nums : List Nat) : List (List Nat) :=
  nums.map (lookup (scanFile nums nums.length ls 0 0 []))

end XV.Lines
