/-
  The whole `parse_string` pipeline at the recogniser level, for inputs without macro triggers:
  text --tokenize--> raw tokens --token source--> kept tokens --intern--> recogniser tokens --parse--> outcome.
-/
import XonshVerif.Model.TokenSource
import XonshVerif.Model.Peg
namespace XV.Pipe
open XV XV.Rx XV.Tz XV.Src XV.Peg

/-- the id of a token string in the parser's string table (`strings.size` when absent) -/
def intern (strings : Array (List Nat)) (s : List Nat) : Nat :=
  (strings.toList.findIdx? (· = s)).getD strings.size

def toRTok (strings : Array (List Nat)) (kws softs : List (List Nat)) (t : Tok5) : RTok :=
  { ty := t.ty, strId := intern strings t.str, isKw := kws.contains t.str, isSoft := softs.contains t.str }

inductive Out where
  | tokenizerError (e : Err) (assumed : Bool)   -- assumed: a helper the recogniser cannot evaluate was taken to succeed before that
  | parsed (o : Outcome) (first : St)
deriving Repr, Inhabited

structure Tables where
  prog    : Prog
  strings : Array (List Nat)
  kws     : List (List Nat)
  softs   : List (List Nat)
  start   : Nat

/-- `XonshParser.parse_string(src, mode)` (no macros).  The raw generator is consumed lazily: when the
    tokenizer raises, the parser has seen exactly the kept tokens produced so far, and the error surfaces
    only if the parser asks for one more token (`tokErr` of the recogniser). -/
def parseString (E : Env) (P : Pats) (T : Tables) (fuel : Nat) (src : List Nat) : Out :=
  let run := tokenize E P src
  let w := ((kept E run.toks).map (toRTok T.strings T.kws T.softs)).toArray
  let r := parse T.prog w fuel T.start
  match run.err, r.1 with
  | some e, .tokErr => .tokenizerError e (r.2.1.assumed || (r.2.2.1.map (·.assumed)).getD false)
  | _, o => .parsed o r.2.1

end XV.Pipe
