/-
  Model of `Parser.proc_macro_arg` (peg_parser/subheader.py): the text a subprocess macro `cmd! rest` passes on is the
  concatenation of the strings of the pieces the rule collected (tokens, WS tokens included, and bracket groups), stripped.
-/
import XonshVerif.Model.Basic
namespace XV.ProcMacro

/-- `str.strip()` with `isSp` = `str.isspace` on single characters -/
def pyStrip (isSp : Nat → Bool) (l : List Nat) : List Nat := ((l.dropWhile isSp).reverse.dropWhile isSp).reverse

/-- `"".join(piece strings).strip()` -/
def procMacroArg (isSp : Nat → Bool) (pieces : List (List Nat)) : List Nat := pyStrip isSp pieces.flatten

end XV.ProcMacro
