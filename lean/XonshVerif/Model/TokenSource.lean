/-
  Model of the token source `Tokenizer.peek/is_blank` (peg_parser/tokenizer.py) WITHOUT macro capture:
  which raw tokens the parser gets to see.
-/
import XonshVerif.Model.Tokenize
namespace XV.Src
open XV XV.Rx XV.Tz

/-- `is_blank(tok)` with `_proc_macro = False`; `prev` is the last kept token (`self._tokens[-1]`). -/
def isBlank (E : Env) (prev : Option Tok5) (t : Tok5) : Bool :=
  t.ty = .NL || t.ty = .COMMENT || t.ty = .WS ||
  (t.ty = .ERRORTOKEN && t.str.all E.isSpace) ||            -- `tok.string.isspace()` (non-empty: an ERRORTOKEN is one char)
  (t.ty = .NEWLINE && (match prev with | some p => p.ty = .NEWLINE | none => false))

/-- the kept tokens, in order (`acc` reversed) -/
def keepAux (E : Env) : List Tok5 → List Tok5 → List Tok5
  | [], acc => acc.reverse
  | t :: ts, acc => if isBlank E acc.head? t then keepAux E ts acc else keepAux E ts (t :: acc)

def kept (E : Env) (raw : List Tok5) : List Tok5 := keepAux E raw []

/-- no NL / COMMENT / WS token reaches the parser -/
theorem keepAux_no_trivia (E : Env) : ∀ (raw acc : List Tok5),
    (∀ t ∈ acc, t.ty ≠ .NL ∧ t.ty ≠ .COMMENT ∧ t.ty ≠ .WS) →
    ∀ t ∈ keepAux E raw acc, t.ty ≠ .NL ∧ t.ty ≠ .COMMENT ∧ t.ty ≠ .WS := by
  intro raw
  induction raw with
  | nil => intro acc h t ht; exact h t (by simpa [keepAux] using ht)
  | cons r rs ih =>
    intro acc h t ht
    simp only [keepAux] at ht
    split at ht
    · exact ih acc h t ht
    · rename_i hb
      apply ih (r :: acc) _ t ht
      intro u hu
      simp only [List.mem_cons] at hu
      rcases hu with rfl | hu
      · simp only [isBlank, Bool.or_eq_true, decide_eq_true_eq, not_or] at hb
        exact ⟨hb.1.1.1.1, hb.1.1.1.2, hb.1.1.2⟩
      · exact h u hu

theorem kept_no_trivia (E : Env) (raw : List Tok5) : ∀ t ∈ kept E raw, t.ty ≠ .NL ∧ t.ty ≠ .COMMENT ∧ t.ty ≠ .WS :=
  keepAux_no_trivia E raw [] (by simp)

/-- kept tokens are a sub-sequence of the raw tokens: order preserved, nothing invented -/
theorem keepAux_sublist (E : Env) : ∀ (raw acc : List Tok5), (keepAux E raw acc).Sublist (acc.reverse ++ raw) := by
  intro raw
  induction raw with
  | nil => intro acc; simp [keepAux]
  | cons r rs ih =>
    intro acc
    simp only [keepAux]
    split
    · exact (ih acc).trans (List.Sublist.append_left (List.sublist_cons_self r rs) _) |>.trans (by simp)
    · have := ih (r :: acc)
      simpa using this

theorem kept_sublist (E : Env) (raw : List Tok5) : (kept E raw).Sublist raw := by
  simpa [kept] using keepAux_sublist E raw []

end XV.Src
