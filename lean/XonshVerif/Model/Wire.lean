/-
  Line protocol helpers for the native driver (correspondence runs).
  A request is one line of blank-separated fields; a string field is its code points in decimal
  joined by ',' ("-" for the empty string).
-/
import XonshVerif.Model.Basic
namespace XV.Wire

def decStr (f : String) : List Nat :=
  if f = "-" then [] else (f.splitOn ",").map (fun s => s.toNat!)

def encStr (s : List Nat) : String :=
  if s.isEmpty then "-" else ",".intercalate (s.map toString)

def fields (line : String) : List String :=
  (line.splitOn " ").filter (· ≠ "")

def nat (f : String) : Nat := f.toNat!

def encPos (p : Pos) : String := s!"{p.line}:{p.col}"

end XV.Wire
