/-
  C18: structural cause of super-linear work.  In the call graph restricted to rules that are NOT
  memoised, no edge with multiplicity >= 2 (one invocation of the caller can invoke the callee twice at
  the same position) may lie on a cycle: such a cycle multiplies the work by its multiplicity per nesting level.
  The witness (a component number per rule) and the memo flags are packed into single numbers so that the
  kernel checks the certificate with GMP arithmetic instead of list indexing.
-/
import XonshVerif.Model.Peg
namespace XV.Peg
def primCallee : Prim → Option Nat
  | .rule id => some id
  | _ => none
def itemCallees : Item → List Nat
  | .call p | .repeated p | .posLook p | .negLook p | .forced p _ => (primCallee p).toList
  | .gathered a b => (primCallee a).toList ++ (primCallee b).toList
  | .seqAlts ps => ps.filterMap primCallee
  | .setCut | .guardInvalid => []
def altKey (a : Alt) : Nat :=
  match a.items.head? with
  | some it => (match it.item with | .call (.expect s) => if it.opt then 0 else s + 1 | _ => 0)
  | none => 0
def callSites (r : Rule) : List (Nat × Nat) :=
  match r.body with
  | .alts as _ _ => as.flatMap (fun a => (a.items.flatMap (fun it => itemCallees it.item)).map (fun c => (altKey a, c)))
  | .seqAlts ps => (ps.filterMap primCallee).map (fun c => (0, c))
  | .unmodelled => []
def isMemo (r : Rule) : Bool := r.deco == .memo || r.deco == .leftrec
def multi (sites : List (Nat × Nat)) (callee : Nat) : Bool :=
  let ks := (sites.filter (·.2 = callee)).map (·.1)
  ks.any (fun k => (ks.filter (· = k)).length ≥ 2)

/-- bit i set iff rule i is memoised -/
def memoMaskAux : List Rule → Nat → Nat → Nat
  | [], _, acc => acc
  | r :: rs, i, acc => memoMaskAux rs (i + 1) (if isMemo r then acc ||| (1 <<< i) else acc)
def memoMask (prog : Prog) : Nat := memoMaskAux prog.toList 0 0

def compAt (N b : Nat) : Nat := (N >>> (10 * b)) &&& 1023

def checkRule (M N : Nat) (a : Nat) (ra : Rule) : Bool :=
  if isMemo ra then true
  else
    let sites := callSites ra
    (sites.map (·.2)).eraseDups.all (fun b =>
      if M.testBit b then true
      else compAt N b ≤ compAt N a && (!multi sites b || compAt N b < compAt N a))

def cycleCertAux (M N : Nat) : List Rule → Nat → Bool
  | [], _ => true
  | r :: rs, i => checkRule M N i r && cycleCertAux M N rs (i + 1)

def cycleCert (prog : Prog) (N : Nat) : Bool := cycleCertAux (memoMask prog) N prog.toList 0
end XV.Peg
