-- Certificates on data regenerated from /repo.
import XonshCerts.Basic
import XonshCerts.Regex
import XonshCerts.Dead
import XonshCerts.Cost
import XonshCerts.Actions
import XonshCerts.Regen
import XonshCerts.Total
