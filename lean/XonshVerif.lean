import XonshVerif.Model.Basic
import XonshVerif.Model.Wire
import XonshVerif.Model.ProcArgs
import XonshVerif.Model.Driver
import XonshVerif.Proofs.ProcArgs
import XonshVerif.Proofs.ProcLayout
import XonshVerif.Properties.C06
