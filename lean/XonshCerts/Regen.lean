/-
  Certificate for C16: the recogniser IR of the SHIPPED peg_parser/parser.py and the IR of the module that
  tasks/generator.py generates from tasks/xonsh.gram in this run are the same program (same rules in the
  same order, same decorations, same alternatives, items, cuts and action kinds, same string and keyword
  tables).  Every theorem instantiated on the shipped parser therefore holds for what the grammar generates.
-/
import XonshVerif.Properties.C02
import XonshVerif.Generated.ParserIR
import XonshVerif.Generated.ParserIRRegen
import XonshVerif.Generated.Witness
import XonshCerts.Dead
namespace XVC
open XV XV.Peg

theorem regenerated_ir_equals_shipped :
    XV.GenRegen.prog = XV.Gen.prog ∧ XV.GenRegen.ruleNames = XV.Gen.ruleNames ∧ XV.GenRegen.strings = XV.Gen.strings ∧
    XV.GenRegen.keywords = XV.Gen.keywords ∧ XV.GenRegen.softKeywords = XV.Gen.softKeywords := by decide +kernel

theorem regenerated_ir_nonempty : 300 < XV.GenRegen.prog.size := by decide +kernel

/-- transfer: the inertness theorem, stated for the regenerated parser -/
theorem regenerated_xonsh_alternatives_inert (w : Array RTok) (hw : PyLex XV.Gen.lexicon w) (fuel start : Nat) :
    FiredOK XV.Gen.lexicon XV.GenRegen.prog XV.Gen.deadRules (parse XV.GenRegen.prog w fuel start).2.1 := by
  rw [regenerated_ir_equals_shipped.1]
  exact shipped_xonsh_alternatives_inert w hw fuel start

end XVC
