/-
  Certificates on the regular expressions regenerated from /repo/peg_parser/tokenize.py.
-/
import XonshVerif.Model.Regex
import XonshVerif.Generated.Regexes
import XonshVerif.Model.DriverTok
import XonshVerif.Properties.C03
import XonshVerif.Properties.C09
import XonshVerif.Properties.C08
namespace XVC
open XV XV.Rx

/-- the translator accepted every pattern (no construct outside the modelled fragment) -/
theorem regex_translation_complete : XV.Gen.translatorRefusals = 0 := by decide

/-- every branch of PseudoToken except `End` (which contains `\Z`) consumes at least one character;
    `End` is `\\\r?\n|\Z` and `\Z` only matches at the end of the line, where the scan loop has stopped -/
theorem pseudo_branches_progress :
    (XV.Gen.pseudoToken.filter (·.1 ≠ "End")).all (fun b => nonNull b.2) = true := by decide +kernel

theorem pseudo_branch_names :
    XV.Gen.pseudoToken.map (·.1) = ["Comment", "StringStart", "End", "NL", "SearchPath", "Number", "Special", "Name", "ws"] := by decide

/-- string bodies, f-string literal scanners and the spec scanner consume at least one character -/
theorem string_patterns_progress :
    XV.Gen.endpats.all (fun b => nonNull b.2) = true ∧ XV.Gen.startLBrace.all (fun b => nonNull b.2) = true
      ∧ nonNull XV.Gen.endRBrace = true := by decide +kernel

theorem quotes_covered :
    XV.Gen.endpats.map (·.1) = ["'", "\"", "'''", "\"\"\""] ∧ XV.Gen.startLBrace.map (·.1) = ["'", "\"", "'''", "\"\"\""] := by decide

/-- C09 longest-operator-first: no operator is a proper prefix of an operator listed later in the sorted alternation
    (the alternation is built from `sorted(OPS, reverse=True)`; here: in the reverse-sorted list no earlier entry is a
    proper prefix of a later one) -/
def noEarlierPrefix : List String → Bool
  | [] => true
  | x :: rest => rest.all (fun y => !(x.isPrefixOf y && x != y)) && noEarlierPrefix rest

theorem longest_operator_first : noEarlierPrefix XV.Gen.ops.reverse = true := by decide +kernel

/-- the same certificate on code-point lists, in the form `XV.Ops.first_listed_is_longest` takes -/
theorem longest_operator_first_chars : XV.Ops.noEarlierPrefix (XV.Gen.ops.reverse.map String.toList) = true := by decide +kernel

/-- C09 maximal munch on the SHIPPED operator table (regenerated from `tokenize.OPS` on every run): whichever
    operator the ordered alternation takes first is at least as long as every operator of the table that is a prefix
    of the remaining text. -/
theorem shipped_operator_alternation_is_maximal_munch (text o : List Char)
    (h : XV.Ops.firstPrefix (XV.Gen.ops.reverse.map String.toList) text = some o) :
    ∀ o' ∈ XV.Gen.ops.reverse.map String.toList, o'.isPrefixOf text = true → o'.length ≤ o.length :=
  XV.Ops.first_listed_is_longest _ text o longest_operator_first_chars h

theorem tabsize_is_8 : XV.Gen.tabsize = 8 := by decide

end XVC

namespace XVC
open XV XV.Rx XV.Tz

/-- the certificate in the form the generic theorem asks for -/
theorem gen_pseudo_progress : PseudoProgress XV.Driver.genPats := by
  intro b hb hne
  have h := pseudo_branches_progress
  rw [List.all_eq_true] at h
  exact h b (by simp [List.mem_filter, hne]; exact hb)

/-- **C03 (tokenizer), instantiated on the regexes of the working tree**: for every text and every
    classification of non-ASCII characters, the tokenizer model run on the shipped patterns terminates. -/
theorem shipped_tokenizer_total (E : Env) (src : List Nat) :
    (tokenize E XV.Driver.genPats src).err ≠ some .loopFuel :=
  tokenize_total E _ gen_pseudo_progress src


/-! ### C08: the f-string scanners consume what they report (hypothesis `FstrLen` of `tokens_in_position_order`) -/

theorem lookupPat_minLen (l : List (String × Re)) (h : l.all (fun b => decide (1 ≤ minLen b.2)) = true) (q : String) :
    1 ≤ minLen (lookupPat l q) := by
  unfold lookupPat
  cases hf : l.find? (·.1 = q) with
  | none => simp [minLen]
  | some b =>
    obtain ⟨n, r⟩ := b
    simp only []
    have hmem := List.mem_of_find?_eq_some hf
    rw [List.all_eq_true] at h
    simpa using h _ hmem

theorem fstring_scanners_min_length :
    XV.Gen.startLBrace.all (fun b => decide (1 ≤ minLen b.2)) = true ∧ XV.Gen.endpats.all (fun b => decide (1 ≤ minLen b.2)) = true ∧
    1 ≤ minLen XV.Gen.endRBrace ∧ 3 ≤ minLen (lookupPat XV.Gen.endpats "'''") ∧ 3 ≤ minLen (lookupPat XV.Gen.endpats "\"\"\"") := by
  decide +kernel

theorem gen_fstr_len : FstrLen XV.Driver.genPats := by
  obtain ⟨h1, h2, h3, h4, h5⟩ := fstring_scanners_min_length
  refine ⟨fun q => lookupPat_minLen _ h1 q, h3, ?_⟩
  intro tok
  unfold quoteOf
  simp only []
  split
  · rename_i hq
    simp only [Bool.or_eq_true, decide_eq_true_eq] at hq
    rcases hq with hq | hq
    · rw [hq]; exact h4
    · rw [hq]; exact h5
  · refine Nat.le_trans ?_ (lookupPat_minLen _ h2 _)
    rw [List.length_drop]; omega

/-- **C08 (ordering), instantiated on the regexes of the working tree**: on every text the tokenizer model finishes on,
    with the shipped patterns, the tokens are in non-decreasing, non-overlapping position order. -/
theorem shipped_tokens_in_position_order (E : Env) (src : List Nat) (hfin : (tokenize E XV.Driver.genPats src).err = none) :
    (tokenize E XV.Driver.genPats src).toks.Pairwise (fun a b => a.stop ≤ b.start) ∧
    ∀ t ∈ (tokenize E XV.Driver.genPats src).toks, t.start ≤ t.stop :=
  tokens_in_position_order E _ gen_pseudo_progress gen_fstr_len src hfin

/-- **C08 (text), instantiated on the working tree's patterns**: every token except FSTRING_END and the scanner's brace
    operators is the source text between its coordinates. -/
theorem shipped_tokens_are_source_slices (E : Env) (src : List Nat) (hfin : (tokenize E XV.Driver.genPats src).err = none) :
    ∀ t ∈ (tokenize E XV.Driver.genPats src).toks, t.ty ≠ .FSTRING_END → ¬ (t.ty = .OP ∧ (t.str = [123] ∨ t.str = [125])) →
      t.str = srcText (splitLines src []) t.start t.stop :=
  all_tokens_but_fstring_delimiters_are_source_slices E _ gen_pseudo_progress gen_fstr_len src hfin

/-- Non-vacuity on the shipped patterns: `f"a{x:>{w}}b{f'{y}'}"⏎` finishes with 18 tokens, f-string parts included. -/
example : (tokenize ⟨[], []⟩ XV.Driver.genPats ("f\"a{x:>{w}}b{f'{y}'}\"\n".toList.map Char.toNat)).err = none ∧
    (tokenize ⟨[], []⟩ XV.Driver.genPats ("f\"a{x:>{w}}b{f'{y}'}\"\n".toList.map Char.toNat)).toks.length = 18 := by decide +kernel

end XVC
