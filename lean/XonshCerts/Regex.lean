/-
  Certificates on the regular expressions regenerated from /repo/peg_parser/tokenize.py.
-/
import XonshVerif.Model.Regex
import XonshVerif.Generated.Regexes
import XonshVerif.Model.DriverTok
import XonshVerif.Properties.C03
import XonshVerif.Properties.C09
import XonshVerif.Properties.C08
namespace XVC
open XV XV.Rx

/-- the translator accepted every pattern (no construct outside the modelled fragment) -/
theorem regex_translation_complete : XV.Gen.translatorRefusals = 0 := by decide

/-- every branch of PseudoToken except `End` (which contains `\Z`) consumes at least one character;
    `End` is `\\\r?\n|\Z` and `\Z` only matches at the end of the line, where the scan loop has stopped -/
theorem pseudo_branches_progress :
    (XV.Gen.pseudoToken.filter (·.1 ≠ "End")).all (fun b => nonNull b.2) = true := by decide +kernel

theorem pseudo_branch_names :
    XV.Gen.pseudoToken.map (·.1) = ["Comment", "StringStart", "End", "NL", "SearchPath", "Number", "Special", "Name", "ws"] := by decide

/-- string bodies, f-string literal scanners and the spec scanner consume at least one character -/
theorem string_patterns_progress :
    XV.Gen.endpats.all (fun b => nonNull b.2) = true ∧ XV.Gen.startLBrace.all (fun b => nonNull b.2) = true
      ∧ nonNull XV.Gen.endRBrace = true := by decide +kernel

theorem quotes_covered :
    XV.Gen.endpats.map (·.1) = ["'", "\"", "'''", "\"\"\""] ∧ XV.Gen.startLBrace.map (·.1) = ["'", "\"", "'''", "\"\"\""] := by decide

/-- C09 longest-operator-first: no operator is a proper prefix of an operator listed later in the sorted alternation
    (the alternation is built from `sorted(OPS, reverse=True)`; here: in the reverse-sorted list no earlier entry is a
    proper prefix of a later one) -/
def noEarlierPrefix : List String → Bool
  | [] => true
  | x :: rest => rest.all (fun y => !(x.isPrefixOf y && x != y)) && noEarlierPrefix rest

theorem longest_operator_first : noEarlierPrefix XV.Gen.ops.reverse = true := by decide +kernel

/-- the same certificate on code-point lists, in the form `XV.Ops.first_listed_is_longest` takes -/
theorem longest_operator_first_chars : XV.Ops.noEarlierPrefix (XV.Gen.ops.reverse.map String.toList) = true := by decide +kernel

/-- C09 maximal munch on the SHIPPED operator table (regenerated from `tokenize.OPS` on every run): whichever
    operator the ordered alternation takes first is at least as long as every operator of the table that is a prefix
    of the remaining text. -/
theorem shipped_operator_alternation_is_maximal_munch (text o : List Char)
    (h : XV.Ops.firstPrefix (XV.Gen.ops.reverse.map String.toList) text = some o) :
    ∀ o' ∈ XV.Gen.ops.reverse.map String.toList, o'.isPrefixOf text = true → o'.length ≤ o.length :=
  XV.Ops.first_listed_is_longest _ text o longest_operator_first_chars h

theorem tabsize_is_8 : XV.Gen.tabsize = 8 := by decide

end XVC

namespace XVC
open XV XV.Rx XV.Tz

/-- the certificate in the form the generic theorem asks for -/
theorem gen_pseudo_progress : PseudoProgress XV.Driver.genPats := by
  intro b hb hne
  have h := pseudo_branches_progress
  rw [List.all_eq_true] at h
  exact h b (by simp [List.mem_filter, hne]; exact hb)

/-- **C03 (tokenizer), instantiated on the regexes of the working tree**: for every text and every
    classification of non-ASCII characters, the tokenizer model run on the shipped patterns terminates. -/
theorem shipped_tokenizer_total (E : Env) (src : List Nat) :
    (tokenize E XV.Driver.genPats src).err ≠ some .loopFuel :=
  tokenize_total E _ gen_pseudo_progress src


/-! ### C08: the f-string scanners consume what they report (hypothesis `FstrLen` of `tokens_in_position_order`) -/

theorem lookupPat_minLen (l : List (String × Re)) (h : l.all (fun b => decide (1 ≤ minLen b.2)) = true) (q : String) :
    1 ≤ minLen (lookupPat l q) := by
  unfold lookupPat
  cases hf : l.find? (·.1 = q) with
  | none => simp [minLen]
  | some b =>
    obtain ⟨n, r⟩ := b
    simp only []
    have hmem := List.mem_of_find?_eq_some hf
    rw [List.all_eq_true] at h
    simpa using h _ hmem

theorem fstring_scanners_min_length :
    XV.Gen.startLBrace.all (fun b => decide (1 ≤ minLen b.2)) = true ∧ XV.Gen.endpats.all (fun b => decide (1 ≤ minLen b.2)) = true ∧
    1 ≤ minLen XV.Gen.endRBrace ∧ 3 ≤ minLen (lookupPat XV.Gen.endpats "'''") ∧ 3 ≤ minLen (lookupPat XV.Gen.endpats "\"\"\"") := by
  decide +kernel

theorem gen_fstr_len : FstrLen XV.Driver.genPats := by
  obtain ⟨h1, h2, h3, h4, h5⟩ := fstring_scanners_min_length
  refine ⟨fun q => lookupPat_minLen _ h1 q, h3, ?_⟩
  intro tok
  unfold quoteOf
  simp only []
  split
  · rename_i hq
    simp only [Bool.or_eq_true, decide_eq_true_eq] at hq
    rcases hq with hq | hq
    · rw [hq]; exact h4
    · rw [hq]; exact h5
  · refine Nat.le_trans ?_ (lookupPat_minLen _ h2 _)
    rw [List.length_drop]; omega

/-- **C08 (ordering), instantiated on the regexes of the working tree**: on every text the tokenizer model finishes on,
    with the shipped patterns, the tokens are in non-decreasing, non-overlapping position order. -/
theorem shipped_tokens_in_position_order (E : Env) (src : List Nat) (hfin : (tokenize E XV.Driver.genPats src).err = none) :
    (tokenize E XV.Driver.genPats src).toks.Pairwise (fun a b => a.stop ≤ b.start) ∧
    ∀ t ∈ (tokenize E XV.Driver.genPats src).toks, t.start ≤ t.stop :=
  tokens_in_position_order E _ gen_pseudo_progress gen_fstr_len src hfin

/-! ### C08: every match of the f-string scanners ends with the delimiter it reports (hypothesis `FstrEnds`) -/

theorem lookupPat_endsWith (l : List (String × Re)) (w : List Nat) (h : l.all (fun b => endsWith b.2 w) = true) (q : String) :
    endsWith (lookupPat l q) w = true := by
  unfold lookupPat
  cases hf : l.find? (·.1 = q) with
  | none => cases w <;> simp [endsWith]
  | some b =>
    obtain ⟨n, r⟩ := b
    simp only []
    have hmem := List.mem_of_find?_eq_some hf
    rw [List.all_eq_true] at h
    exact h _ hmem

theorem fstring_scanners_end_with_delimiter :
    XV.Gen.startLBrace.all (fun b => endsWith b.2 [123]) = true ∧ endsWith XV.Gen.endRBrace [125] = true ∧
    XV.Gen.endpats.all (fun b => endsWith b.2 (b.1.toList.map Char.toNat)) = true := by
  decide +kernel

/-- a one-character key of the quote table -/
theorem strOfCps_single_eq (c : Nat) (k : Char) (h : strOfCps [c] = String.singleton k) (hk : k.toNat ≠ 0) : c = k.toNat := by
  unfold strOfCps at h
  have h2 : [Char.ofNat c] = [k] := by
    have := congrArg String.toList h
    simpa using this
  injection h2 with h2
  rw [← h2] at hk ⊢
  unfold Char.ofNat at hk ⊢
  split
  · rfl
  · rename_i hv; simp [hv] at hk

theorem gen_fstr_ends : FstrEnds XV.Driver.genPats := by
  obtain ⟨h1, h2, h3⟩ := fstring_scanners_end_with_delimiter
  refine ⟨fun q => lookupPat_endsWith _ _ h1 q, h2, ?_⟩
  intro tok
  -- whatever the table holds for key `q` ends with the characters of `q`
  have key : ∀ (q : String) (w : List Nat), (∀ b ∈ XV.Gen.endpats, b.1 = q → q.toList.map Char.toNat = w) →
      endsWith (lookupPat XV.Driver.genPats.endpats q) w = true := by
    intro q w hq
    show endsWith (lookupPat XV.Gen.endpats q) w = true
    unfold lookupPat
    cases hf : XV.Gen.endpats.find? (·.1 = q) with
    | none => cases w <;> simp [endsWith]
    | some b =>
      obtain ⟨n, r⟩ := b
      simp only []
      have hmem := List.mem_of_find?_eq_some hf
      have hn : n = q := by simpa using List.find?_some hf
      rw [List.all_eq_true] at h3
      have := h3 _ hmem
      simp only [] at this
      rw [hn, hq _ hmem hn] at this
      exact this
  unfold quoteOf
  simp only []
  split
  · rename_i hq
    simp only [Bool.or_eq_true, decide_eq_true_eq] at hq
    rcases hq with hq | hq
    · rw [hq]; exact key _ _ (by intro b _ _; decide)
    · rw [hq]; exact key _ _ (by intro b _ _; decide)
  · cases hd : tok.drop (tok.length - 1) with
    | nil => cases lookupPat XV.Driver.genPats.endpats (strOfCps []) <;> simp [endsWith]
    | cons c rest =>
      have hlen : (tok.drop (tok.length - 1)).length ≤ 1 := by rw [List.length_drop]; omega
      rw [hd] at hlen
      have hrest : rest = [] := by
        cases rest with
        | nil => rfl
        | cons x xs => simp at hlen
      subst hrest
      apply key
      intro b hb hbq
      have hkeys := quotes_covered.1
      have hb1 : b.1 ∈ XV.Gen.endpats.map (·.1) := List.mem_map_of_mem hb
      rw [hkeys] at hb1
      simp only [List.mem_cons, List.not_mem_nil, or_false] at hb1
      rcases hb1 with h | h | h | h
      · rw [h] at hbq
        have := strOfCps_single_eq c '\'' hbq.symm (by decide)
        rw [this]; decide
      · rw [h] at hbq
        have := strOfCps_single_eq c '"' hbq.symm (by decide)
        rw [this]; decide
      · exfalso
        rw [h] at hbq
        have := congrArg String.length hbq
        simp [strOfCps] at this
        exact absurd this (by decide)
      · exfalso
        rw [h] at hbq
        have := congrArg String.length hbq
        simp [strOfCps] at this
        exact absurd this (by decide)

/-- **C08 (text), instantiated on the working tree's patterns**: on every text the tokenizer model finishes on, every
    token is the source text between its coordinates. -/
theorem shipped_tokens_are_source_slices (E : Env) (src : List Nat) (hfin : (tokenize E XV.Driver.genPats src).err = none) :
    ∀ t ∈ (tokenize E XV.Driver.genPats src).toks, t.str = srcText (splitLines src []) t.start t.stop :=
  all_tokens_are_source_slices E _ gen_pseudo_progress gen_fstr_len gen_fstr_ends src hfin

/-! ### C08: what the continuation branch skips (hypothesis `EndGap`) -/

theorem end_branch_only_continuation_chars :
    (XV.Gen.pseudoToken.filter (·.1 = "End")).all (fun b => onlyChars contChar b.2) = true := by decide +kernel

theorem gen_end_gap : EndGap XV.Driver.genPats := by
  intro b hb hE
  have h := end_branch_only_continuation_chars
  rw [List.all_eq_true] at h
  exact h b (by simp [List.mem_filter, hE]; exact hb)

/-- **C08 (gaps), instantiated on the working tree's patterns** -/
theorem shipped_gaps_are_indentation_or_continuation (E : Env) (src : List Nat) (hfin : (tokenize E XV.Driver.genPats src).err = none) :
    Gaps (splitLines src []) ⟨1, 0⟩ (tokenize E XV.Driver.genPats src).toks :=
  gaps_are_indentation_or_continuation E _ gen_pseudo_progress gen_fstr_len gen_fstr_ends gen_end_gap src hfin

/-- Non-vacuity on the shipped patterns: `f"a{x:>{w}}b{f'{y}'}"⏎` finishes with 18 tokens, f-string parts included. -/
example : (tokenize ⟨[], []⟩ XV.Driver.genPats ("f\"a{x:>{w}}b{f'{y}'}\"\n".toList.map Char.toNat)).err = none ∧
    (tokenize ⟨[], []⟩ XV.Driver.genPats ("f\"a{x:>{w}}b{f'{y}'}\"\n".toList.map Char.toNat)).toks.length = 18 := by decide +kernel


/-- Non-vacuity of the gap theorem on the shipped patterns: in `if a:⏎  b⏎  c \⏎+ 1⏎` the gaps between consecutive tokens
    are empty except the indentation of the third line and the backslash continuation. -/
def gapSrc : List Nat := "if a:\n  b\n  c \\\n+ 1\n".toList.map Char.toNat
example : (let ts := (tokenize ⟨[], []⟩ XV.Driver.genPats gapSrc).toks
           (List.zip ts ts.tail).map (fun (a, b) => srcText (splitLines gapSrc []) a.stop b.start)) =
    [[], [], [], [], [], [], [], [32, 32], [], [92, 10], [], [], [], [], []] := by decide +kernel

end XVC
