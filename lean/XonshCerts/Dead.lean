/-
  Certificates for C01/C02/C05: the dead-rule witness computed by the translator is valid for the
  shipped parser, and the alternatives it kills are the xonsh alternatives we expect.
-/
import XonshVerif.Properties.C02
import XonshVerif.Generated.ParserIR
import XonshVerif.Generated.Witness
namespace XVC
open XV XV.Peg

/-- the witness passes the checker: by `xonsh_alternatives_inert` no dead alternative of the shipped
    parser ever fires on a token list of the Python lexicon -/
theorem dead_cert : deadCert XV.Gen.lexicon XV.Gen.prog XV.Gen.deadRules = true := by decide +kernel

def nameOf (i : Nat) : String := XV.Gen.ruleNames[i]?.getD "?"

/-- the named (non-helper) rules that are dead -/
theorem dead_rules_expected :
    ((XV.Gen.deadRules.map nameOf).filter (fun n => !n.startsWith "_tmp")) =
      ["with_macro_stmt", "with_macro_start", "func_macro_start", "sub_procs", "help_atom", "env_atom",
       "proc_macro_start", "search_path", "fstring_conversion", "invalid_conversion_character"] := by decide +kernel

/-- the dead alternatives of LIVE named rules: exactly the xonsh alternatives of `with_stmt`, `primary`, `proc_cmd`,
    `atom`, the binding-target rule, and the conversion alternatives of the f-string diagnostics -/
theorem dead_alternatives_expected :
    (((deadAltsOf XV.Gen.lexicon XV.Gen.deadRules XV.Gen.prog).filter (fun x => !XV.Gen.deadRules.contains x.1)).map
        (fun x => (nameOf x.1, x.2))).filter (fun x => !x.1.startsWith "_tmp") =
      [("with_stmt", 1), ("primary", 2), ("primary", 5), ("primary", 6), ("primary", 7),
       ("proc_cmd", 0), ("proc_cmd", 1), ("proc_cmd", 2), ("proc_cmd", 3), ("proc_cmd", 4), ("proc_cmd", 5), ("proc_cmd", 6),
       ("atom", 0), ("target_with_star_atom", 2), ("target_with_star_atom", 3),
       ("invalid_replacement_field", 1), ("invalid_replacement_field", 7)] := by decide +kernel

/-- **C02 second sentence, instantiated on the shipped parser**: for every Python-lexicon token list, fuel and
    start rule, no xonsh alternative of the working tree's parser has its action run. -/
theorem shipped_xonsh_alternatives_inert (w : Array RTok) (hw : PyLex XV.Gen.lexicon w) (fuel start : Nat) :
    FiredOK XV.Gen.lexicon XV.Gen.prog XV.Gen.deadRules (parse XV.Gen.prog w fuel start).2.1 :=
  (xonsh_alternatives_inert _ _ _ w dead_cert hw fuel start).1

end XVC
