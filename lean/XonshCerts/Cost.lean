/-
  C18 certificate: in the shipped parser no multi-edge lies on a cycle of the non-memoised call graph.
-/
import XonshVerif.Proofs.PegCost
import XonshVerif.Generated.ParserIR
import XonshVerif.Generated.CostWitness
namespace XVC
open XV XV.Peg

theorem cycle_cert : cycleCert XV.Gen.prog XV.Gen.compN = true := by decide +kernel

/-- the packed memo mask agrees with the decorators of the regenerated rules -/
theorem memo_mask_correct :
    (List.range XV.Gen.prog.size).all (fun i => (memoMask XV.Gen.prog).testBit i == ((XV.Gen.prog[i]?.map isMemo).getD false)) = true := by
  decide +kernel

/-- the rules that carry a memo cache (by name): exactly the grammar's `(memo)` flags plus the left-recursion leaders -/
theorem memoised_rules_expected :
    ((List.range XV.Gen.prog.size).filter (fun i => (XV.Gen.prog[i]?.map isMemo).getD false)).map (fun i => XV.Gen.ruleNames[i]?.getD "?") =
      ["simple_stmt", "dotted_name", "block", "dec_primary", "closed_pattern", "attr", "star_pattern", "type_param", "expression",
       "star_expression", "disjunction", "conjunction", "inversion", "bitwise_or", "bitwise_xor", "bitwise_and", "shift_expr",
       "sum", "term", "factor", "await_primary", "primary", "proc_cmds", "proc_cmd", "strings", "arguments", "star_target", "target_with_star_atom",
       "t_primary", "del_target", "invalid_named_expression"] := by decide +kernel

/-- **C18, instantiated**: no call edge of multiplicity >= 2 lies on a cycle of the shipped parser's non-memoised call graph -/
theorem shipped_no_multi_edge_on_cycle (a b : Nat) (hm : MultiEdge XV.Gen.prog a b) (back : NMPath XV.Gen.prog b a ∨ b = a) : False :=
  no_multi_edge_on_cycle XV.Gen.prog XV.Gen.compN cycle_cert a b hm back

end XVC
