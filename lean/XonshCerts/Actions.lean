/-
  C04 certificate: no required (`1`) or list (`*`) field of an AST constructor in any action receives an
  expression that may be None (checker in Model/ActionNull.lean; sound with respect to the evaluation of None /
  or / and / conditional expressions: Properties/C04.lean, theorem nullable_sound).
  C13 certificate: the inventory of process-level mutable state is the expected one.
-/
import XonshVerif.Generated.Actions
import XonshVerif.Properties.C04
import XonshVerif.Generated.Inventory
namespace XVC
open XV XV.Act

theorem no_nullable_required_field : offenders XV.Gen.actionFields = [] := by decide +kernel

/-- every alternative of the shipped parser passes the check that `required_fields_never_none` is about -/
theorem shipped_actions_all_ok : XV.Gen.actionFields.all altOK = true := by decide +kernel

/-- **C04, instantiated**: in every action of the shipped parser, a required or list-valued constructor field never
    receives None, under every valuation that agrees with the alternative's bindings -/
theorem shipped_required_fields_never_none (a : AltFields) (ha : a ∈ XV.Gen.actionFields) (ρ : String → Val) (hρ : EnvOK a.binds ρ)
    (f : FieldUse) (hf : f ∈ a.fields) (hk : f.kind = .one ∨ f.kind = .star) (v : Val) (hv : Eval ρ f.value v) : v ≠ .none :=
  required_fields_never_none a (List.all_eq_true.mp shipped_actions_all_ok a ha) ρ hρ f hf hk v hv

theorem action_fields_nonempty : XV.Gen.actionFields.length ≥ 150 := by decide +kernel

theorem state_inventory_expected :
    XV.Gen.inventory =
      ["subheader.py:module:Del:call ast.Del", "subheader.py:module:EXPR_NAME_MAPPING:dict", "subheader.py:module:Load:call ast.Load",
       "subheader.py:module:Store:call ast.Store", "tokenize.py:func-cache:_compile:functools.lru_cache", "tokenize.py:module:OPS:set",
       "tokenize.py:module:StartLBrace:dict", "tokenize.py:module:endpats:dict"] := by decide

end XVC
