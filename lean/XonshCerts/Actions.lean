/-
  C04 certificate: no required (`1`) or list (`*`) field of an AST constructor in any action receives an
  expression that may be None (checker in Model/ActionNull.lean; its soundness with respect to Python
  evaluation is NOT proved - it is a syntactic nullability analysis, reported as such).
  C13 certificate: the inventory of process-level mutable state is the expected one.
-/
import XonshVerif.Generated.Actions
import XonshVerif.Generated.Inventory
namespace XVC
open XV XV.Act

theorem no_nullable_required_field : offenders XV.Gen.actionFields = [] := by decide +kernel

theorem action_fields_nonempty : XV.Gen.actionFields.length ≥ 150 := by decide +kernel

theorem state_inventory_expected :
    XV.Gen.inventory =
      ["subheader.py:module:Del:call ast.Del", "subheader.py:module:EXPR_NAME_MAPPING:dict", "subheader.py:module:Load:call ast.Load",
       "subheader.py:module:Store:call ast.Store", "tokenize.py:func-cache:_compile:functools.lru_cache", "tokenize.py:module:OPS:set",
       "tokenize.py:module:StartLBrace:dict", "tokenize.py:module:endpats:dict"] := by decide

end XVC
