/-
  Certificates on the data regenerated from /repo: each is `checker generatedData = true`, decided by
  the kernel.  What `checker = true` implies for every input is a generic theorem in XonshVerif/Properties.
-/
import XonshVerif.Model.Peg
import XonshVerif.Generated.ParserIR
import XonshVerif.Generated.Tables
namespace XVC
open XV XV.Peg

/-- every method of the shipped parser.py fits one of the modelled shapes -/
def irComplete (p : Prog) : Bool := p.all (fun r => r.body != .unmodelled)

theorem ir_complete : irComplete XV.Gen.prog = true := by decide +kernel

def primsOfItem : Item → List Prim
  | .call p | .repeated p | .posLook p | .negLook p | .forced p _ => [p]
  | .gathered a b => [a, b]
  | .seqAlts ps => ps
  | .setCut | .guardInvalid => []

def primsOfRule (r : Rule) : List Prim :=
  match r.body with
  | .alts as _ _ => as.flatMap (fun a => a.items.flatMap (fun it => primsOfItem it.item))
  | .seqAlts ps => ps
  | .unmodelled => []

/-- no rule ever tests for an ERRORTOKEN: unknown characters can only make the parse fail -/
def noErrorTokenLeaf (p : Prog) : Bool :=
  p.all (fun r => (primsOfRule r).all (fun q => q != .token .ERRORTOKEN && q != .anyToken))

theorem errortoken_unmatched : noErrorTokenLeaf XV.Gen.prog = true := by decide +kernel

/-- a start rule has a single alternative whose last conjunct is `self.token("ENDMARKER")` and whose
    action is truthy: it cannot succeed before the whole token list is consumed -/
def endsInEndmarker (r : Rule) : Bool :=
  match r.body with
  | .alts [a] _ _ =>
    (match a.items.getLast? with
     | some it => it.item == .call (.token .ENDMARKER) && !it.opt
     | none => false)
  | _ => false

theorem start_demands_endmarker :
    (XV.Gen.prog[XV.Gen.fileId]?.map endsInEndmarker) = some true ∧
    (XV.Gen.prog[XV.Gen.evalId]?.map endsInEndmarker) = some true := by decide +kernel

/-- C06: the four bracket forms call the four documented runtime methods -/
theorem bracket_method_table :
    XV.Gen.subprocTable =
      [("$(", ")", "subproc_captured"), ("$[", "]", "subproc_uncaptured"),
       ("![", "]", "subproc_captured_hiddenobject"), ("!(", ")", "subproc_captured_object")] ∧
    XV.Gen.procCmdTable = [("@(", "proc_pyexpr"), ("@$(", "proc_inject")] := by decide

/-- C05: every alternative that starts an environment / search-path / help construct calls the documented builder with the
    documented expression context, and these are ALL the alternatives that call those builders; `||` / `or` build `Or`,
    `&&` / `and` build `And` (tables read off the regenerated IR's actions) -/
theorem xonsh_builder_table :
    XV.Gen.xonshBuilderTable =
      [("primary", "gathered", "expand_help", "Load"), ("env_atom", "$", "expand_env_name", "Load"), ("env_atom", "${", "expand_env_expr", "Load"),
       ("proc_cmd", "!STRING", "expand_help", "Load"), ("search_path", "SEARCH_PATH", "expand_search_path", "Load"),
       ("target_with_star_atom", "$", "expand_env_name", "Store"), ("target_with_star_atom", "${", "expand_env_expr", "Store")] ∧
    XV.Gen.boolOpTable = [("disjunction", "or,||", "Or"), ("conjunction", "&&,and", "And")] := by decide

/-- C11: in every `raise_syntax_error_known_range(msg, start, end)` of the shipped parser both position arguments come from
    variables of the alternative, and the conjunct that binds `start` does not come after the one that binds `end` - so
    (token order, C08; `span_well_oriented`) the reported range does not end before it starts. -/
theorem range_raise_arguments_in_order :
    XV.Gen.rangeRaiseTable.all (fun r => decide (0 ≤ r.2.2.1) && decide (r.2.2.1 ≤ r.2.2.2)) = true := by decide

/-- C07: raw capture is switched on in exactly three places (`f!(`, `with! ..:`, `cmd!`) and the captured text is used in
    exactly the three matching alternatives (table read off the regenerated actions) -/
theorem macro_sites_table :
    XV.Gen.macroTable =
      [("with_macro_stmt", 0, "handle_with_macro_stmt"), ("with_macro_start", 0, "handle_with_macro_start"), ("primary", 2, "macro_call"),
       ("func_macro_start", 0, "handle_func_macro_start"), ("proc_cmd", 6, "proc_macro_arg"), ("proc_cmd", 7, "proc_macro_arg"),
       ("proc_macro_start", 0, "handle_proc_macro_start")] := by decide

end XVC
