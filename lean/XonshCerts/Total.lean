/-
  C03 certificate (parser half): the shipped parser passes the well-formedness checker, hence - by
  `parse_total` - `Parser.parse` terminates on every token list.
-/
import XonshVerif.Proofs.PegTotal
import XonshVerif.Properties.C15
import XonshVerif.Properties.C03
import XonshVerif.Model.DriverMisc
import XonshCerts.Regex
import XonshVerif.Generated.ParserIR
import XonshVerif.Generated.WfWitness
namespace XVC
open XV XV.Peg

def shippedWf : WfW := WfW.packed XV.Gen.wfNullMask XV.Gen.wfLrMask XV.Gen.wfRankN

/-- no `repeated`/`gathered` body can succeed without consuming; every call chain that stays at one position descends
    in rank until it reaches a left-recursion leader (re-checked from the witnesses in one pass over the 347 rules) -/
theorem wf_cert : wfCert XV.Gen.prog shippedWf = true := by decide +kernel

/-- **C03, instantiated on the regenerated IR of the shipped parser**: for every token list, start rule and verbosity
    there is a fuel with which `Parser.parse` reaches a verdict in both passes: the recogniser never loops. -/
theorem shipped_parser_total (w : Array RTok) (start : Nat) (verbose : Bool) :
    ∃ fuel, (parse XV.Gen.prog w fuel start verbose).1 ≠ .outOfFuel :=
  parse_total wf_cert w start verbose

/-- **C03, the whole pipeline on the regenerated data**: for every text, every classification of non-ASCII characters and
    either start rule, the model of `parse_string` - the regexes regenerated from tokenize.py, the hand-written tokenizer and
    token-source models, the IR regenerated from parser.py - reaches a verdict; it never hangs. -/
theorem shipped_parse_string_total (E : XV.Rx.Env) (start : Nat) (src : List Nat) :
    ∃ fuel, (XV.Pipe.parseString E XV.Driver.genPats (XV.Driver.genTables start) fuel src).terminated :=
  XV.Pipe.parse_string_total E _ gen_pseudo_progress (XV.Driver.genTables start) shippedWf wf_cert src

/-- the shipped grammar has no rule that can succeed on the empty token string -/
theorem no_nullable_rule : XV.Gen.wfNullMask = 0 := by decide +kernel

/-- **C15**: the version gates of the shipped parser, by threshold: `except*` needs (3, 11); the `type` statement and type
    parameter lists need (3, 12).  (A new gate, a changed threshold, or a gate that disappears changes this list.) -/
theorem shipped_version_gates : progGates XV.Gen.prog = [11, 12, 12] := by decide +kernel

/-- with `py_version` at or above (3, 12) the option changes nothing in the shipped parser -/
theorem shipped_py_version_irrelevant_from_312 (v v' : Nat) (hv : 12 ≤ v) (hv' : 12 ≤ v') : gateProg v XV.Gen.prog = gateProg v' XV.Gen.prog := by
  apply py_version_irrelevant_above_all_gates
  · intro m hm; rw [shipped_version_gates] at hm; simp at hm; omega
  · intro m hm; rw [shipped_version_gates] at hm; simp at hm; omega

end XVC
